"""E1 -- use-def expanded terms with ring normal forms (value numbering; no execution of repository code).

A function body is walked once; names map to terms; branches merge into Cond(guard, a, b); early returns become
guard chains; raising branches are pruned (their negated guard becomes an assumption); package callees are inlined.
Arithmetic is normalised to polynomials over atoms with rational exponents and Gaussian-rational coefficients.
"""
from __future__ import annotations
import hashlib, ast, itertools
from fractions import Fraction as F
from .prog import Program, Module, params_of

# ====================================================================== polynomials
ZERO = (F(0), F(0))


def _akey(a):
    return repr(a)


KEY_LIMIT = 400000
_KSIZE: dict = {}


def _ksize(k):
    """number of nodes of a nested key (memoised on the identity of the shared sub-tuples)"""
    if not isinstance(k, tuple): return 1
    c = _KSIZE.get(id(k))
    if c is not None and c[0] is k: return c[1]
    n = 1
    for x in k:
        n += _ksize(x) if isinstance(x, tuple) else 1
        if n > 4 * KEY_LIMIT: break
    if len(_KSIZE) > 400000: _KSIZE.clear()
    _KSIZE[id(k)] = (k, n)
    return n


class Poly:
    """sum of monomials; monomial = sorted tuple of (atom, exponent); coefficient = (re, im) Fractions."""
    __slots__ = ('t', '_k')

    def __init__(s, terms=None):
        s.t = {k: v for k, v in (terms or {}).items() if v != ZERO}
        s._k = None

    @staticmethod
    def const(c, im=0):
        return Poly({(): (F(c), F(im))})

    @staticmethod
    def atom(a, e=1):
        if isinstance(a, tuple) and _ksize(a) > KEY_LIMIT:
            # a key of this size is an unfolded recursion: it stands for itself (equal keys, equal digest) but is not looked into any further
            a = ('huge', hashlib.sha1(repr(a).encode()).hexdigest()[:16])
        return Poly({((a, F(e)),): (F(1), F(0))})

    def __add__(s, o):
        t = dict(s.t)
        for k, (a, b) in o.t.items():
            x, y = t.get(k, ZERO); t[k] = (x + a, y + b)
        return Poly(t)

    def neg(s):
        return Poly({k: (-a, -b) for k, (a, b) in s.t.items()})

    def __sub__(s, o):
        return s + o.neg()

    def __mul__(s, o):
        t = {}
        for (k1, (a, b)), (k2, (c, d)) in itertools.product(s.t.items(), o.t.items()):
            m = {}
            for at, e in k1 + k2: m[at] = m.get(at, F(0)) + e
            k = tuple(sorted(((at, e) for at, e in m.items() if e != 0), key=_akey))
            x, y = t.get(k, ZERO); t[k] = (x + a * c - b * d, y + a * d + b * c)
        return Poly(t)

    def scale(s, c):
        return s * Poly.const(c)

    def is_const(s):
        return all(k == () for k in s.t)

    def is_zero(s):
        return not s.t

    def cval(s):
        return s.t.get((), ZERO)

    def real_const(s):
        """Fraction if s is a real constant else None"""
        if s.is_const() and s.cval()[1] == 0: return s.cval()[0]
        return None

    def single(s):
        if len(s.t) == 1:
            (k, c), = s.t.items()
            return k, c
        return None

    def as_atom(s):
        sg = s.single()
        if sg and sg[1] == (1, 0) and len(sg[0]) == 1 and sg[0][0][1] == 1: return sg[0][0][0]
        return None

    def inv(s):
        if not s.t: return Poly.atom(('inv', s.key()))          # 1/0: an uninterpreted value (the division raises or yields inf at run time)
        sg = s.single()
        if sg:
            k, (a, b) = sg; n = a * a + b * b
            return Poly({tuple((at, -e) for at, e in k): (a / n, -b / n)})
        # factor out the common monomial (pi·x + pi·y = pi·(x+y)) and the leading coefficient: 1/(2 pi x + 2 pi y) == 1/2 · pi^-1 · 1/(x+y)
        common = None
        for k in s.t:
            d = dict(k)
            if common is None: common = d
            else: common = {at: min(e, d[at]) for at, e in common.items() if at in d and (e > 0) == (d[at] > 0)}
        common = {at: e for at, e in (common or {}).items() if e != 0}
        rest = s
        if common:
            cm_inv = Poly({tuple(sorted(((at, -e) for at, e in common.items()), key=_akey)): (F(1), F(0))})
            rest = s * cm_inv
        else:
            cm_inv = Poly.const(1)
        lead_k = min(rest.t, key=_akey); a, b = rest.t[lead_k]; n = a * a + b * b
        c_inv = Poly.const(a / n, -b / n)
        normed = rest * c_inv
        sg = normed.single()
        if sg is not None: return normed.inv() * c_inv * cm_inv
        return Poly.atom(('inv', normed.key())) * c_inv * cm_inv

    def powr(s, e: F):
        if e == 0: return Poly.const(1)
        if e == 1: return s
        sg = s.single()
        if sg:
            k, (a, b) = sg
            if b == 0 and e.denominator == 1:
                return Poly({tuple((at, x * e) for at, x in k): (a ** int(e), F(0))})
            if b == 0 and a > 0:
                # rational power of a positive rational: keep as ('num', a)^e unless perfect power
                base = Poly({tuple((at, x * e) for at, x in k): (F(1), F(0))})
                if a == 1: return base
                return base * Poly.atom(('num', a), e)
        if e.denominator == 1 and e > 0 and e <= 8:
            r = Poly.const(1)
            for _ in range(int(e)): r = r * s
            return r
        if e.denominator == 1 and e < 0:
            return s.powr(-e).inv()
        return Poly.atom(('pow', s.key(), e))

    def key(s):
        if s._k is None:
            s._k = ('poly',) + tuple(sorted(((k, v) for k, v in s.t.items()), key=_akey))
        return s._k

    def __eq__(s, o):
        return isinstance(o, Poly) and s.key() == o.key()

    def __hash__(s):
        return hash(s.key())

    def atoms(s):
        out = set()
        for k in s.t:
            for at, _ in k: out.add(at)
        return out

    def has_opaque(s):
        return any(_opaque_atom(a) for a in s.atoms())

    def subst(s, f):
        """rebuild with every atom a replaced by Poly f(a) (or kept when f returns None)"""
        out = Poly()
        for k, c in s.t.items():
            m = Poly({(): c})
            for at, e in k:
                r = f(at)
                m = m * ((r if r is not None else Poly.atom(at)).powr(e) if e != 1 else (r if r is not None else Poly.atom(at)))
            out = out + m
        return out

    def __repr__(s):
        if not s.t: return '0'
        out = []
        for k, (a, b) in sorted(s.t.items(), key=_akey):
            c = _fs(a) if b == 0 else (f"{_fs(b)}j" if a == 0 else f"({_fs(a)}+{_fs(b)}j)")
            mon = '·'.join(show(at) + (f"^{_fs(e)}" if e != 1 else '') for at, e in k)
            if not k: out.append(c)
            elif c == '1': out.append(mon)
            elif c == '-1': out.append('-' + mon)
            else: out.append(c + '·' + mon)
        return ' + '.join(out)


def _fs(x):
    return str(x.numerator) if x.denominator == 1 else f"{x.numerator}/{x.denominator}"


def show(at):
    if isinstance(at, str): return at
    if isinstance(at, tuple) and at:
        h = at[0]
        if h == '.': return f"{show(at[1])}.{at[2]}"
        if h == '[]': return f"{show(at[1])}[{at[2]!r}]" if not isinstance(at[2], tuple) else f"{show(at[1])}[{show(at[2])}]"
        if h == 'poly': return '(' + repr(Poly(dict(at[1:]))) + ')'
        if h == 'num': return _fs(at[1])
        if h == 'call': return f"{show(at[1])}({', '.join(show(x) for x in at[2])}{''.join(f', {k}={show(v)}' for k, v in at[3])})"
        if isinstance(h, str): return f"{h}({', '.join(show(x) for x in at[1:])})"
        return '⟨' + ', '.join(show(x) for x in at) + '⟩'
    return repr(at)


OPAQUE_TAGS = {'?', 'KeyError', 'IndexError', 'mutated', 'loop'}


def _opaque_atom(a):
    if isinstance(a, tuple):
        if a and a[0] == '?': return True
        if len(a) > 1 and a[0] == 'opq' and a[1] in OPAQUE_TAGS: return True
        return any(_opaque_atom(x) for x in a if isinstance(x, tuple))
    return False


# ====================================================================== non-numeric terms
class Rec:
    """instance of a package class / dataclass"""
    def __init__(s, cls, f, clsref=None):
        s.cls = cls; s.f = f; s.clsref = clsref      # clsref = (Module, ClassDef)

    def key(s):
        return ('rec', s.cls, tuple(sorted((k, tkey(v)) for k, v in s.f.items())))

    def __repr__(s):
        return f"{s.cls}({', '.join(f'{k}={v!r}' for k, v in s.f.items())})"


class Opq:
    """opaque term (not interpreted further)"""
    def __init__(s, *k):
        s.k = k

    def key(s):
        return ('opq',) + tuple(tkey(x) for x in s.k)

    def __repr__(s):
        return show(s.key()[1:]) if len(s.k) > 1 else f"⟪{s.k[0]}⟫"


class _TermNode(ast.expr):
    """an already evaluated term standing in a synthesised statement"""
    _fields = ()
    def __init__(self, term):
        super().__init__(); self.term = term; self.lineno = 0; self.col_offset = 0; self.end_lineno = 0; self.end_col_offset = 0


BREAK = Opq('BREAK')
RAISE = Opq('RAISE')


class Raised(Exception):
    """an exception of the analysed program that the evaluator can decide (lookup of a missing constant key in a literal dictionary, an explicit
    raise inside a try): unwinds to the enclosing `try` of the ANALYSED code, or to the entry call (which then yields RAISE)"""
    def __init__(s, kind, detail=''):
        super().__init__(kind); s.kind = kind; s.detail = detail


EXC_PARENTS = {'KeyError': ('LookupError', 'Exception', 'BaseException'), 'IndexError': ('LookupError', 'Exception', 'BaseException'), 'TypeError': ('Exception', 'BaseException'),
               'ValueError': ('Exception', 'BaseException'), 'AttributeError': ('Exception', 'BaseException'), 'ZeroDivisionError': ('ArithmeticError', 'Exception', 'BaseException')}


def _assume(v, gk, val):
    """simplify term v knowing that the guard with key gk has truth value val"""
    if isinstance(v, Cond):
        if tkey(v.g) == gk: return _assume(v.a if val else v.b, gk, val)
        return Cond(v.g, _assume(v.a, gk, val), _assume(v.b, gk, val))
    return v


class Cond:
    def __new__(cls, g, a, b):
        if g is True: return a
        if g is False: return b
        gk = tkey(g)
        if isinstance(a, Cond): a = _assume(a, gk, True)
        if isinstance(b, Cond): b = _assume(b, gk, False)
        if isinstance(a, Opq) and a.key() == gk: a = True          # g ? g : b  -- the test itself as the value of its own branch
        if isinstance(b, Opq) and b.key() == gk: b = False
        if tkey(a) == tkey(b): return a
        o = object.__new__(cls); o.g = g; o.a = a; o.b = b
        return o

    def __init__(s, g, a, b):
        pass

    def key(s):
        return ('cond', tkey(s.g), tkey(s.a), tkey(s.b))

    def __repr__(s):
        return f"IF[{s.g!r}]⟨{s.a!r} | {s.b!r}⟩"


class LazyList(list):
    """the concrete items an ITERATOR (map / filter / zip / generator / itertools object) still has to yield: consumed by next(), and one such
    object handed to zip several times yields consecutive items (zip(it, it) pairs neighbours)"""


_LAZY_BUILTINS = {'map', 'filter', 'zip', 'iter', 'reversed', 'enumerate'}


class BoolSel(Cond):
    """`first or rest` / `first and rest` on operands that are not truth values: the selected operand; its truth is the connective"""
    def __new__(cls, op, g, first, rest):
        a, b = (first, rest) if op == 'or' else (rest, first)
        if tkey(a) == tkey(b): return a
        o = object.__new__(cls); o.g = g; o.a = a; o.b = b; o.op = op; o.first = first; o.rest = rest
        return o

    def __init__(s, *a):
        pass


class Comp:
    """comprehension: elt over generators [(target-atoms, iter, filters)], kind in list/set/gen/dict"""
    def __init__(s, elt, gens, kind='list'):
        s.elt = elt; s.gens = gens; s.kind = kind

    def key(s):
        return ('comp', s.kind, tkey(s.elt), tuple((tkey(i), tuple(sorted(map(tkey, fs), key=repr))) for i, fs in s.gens))

    def __repr__(s):
        return f"[{s.elt!r} " + ' '.join(f"for β in {i!r}" + ''.join(f" if {f!r}" for f in fs) for i, fs in s.gens) + ']'


class Closure:
    def __init__(s, node, env, mod, name='', self_val=None, cls=None):
        s.node = node; s.env = env; s.mod = mod; s.name = name; s.self_val = self_val; s.cls = cls

    def key(s):
        return ('closure', s.mod.short, s.name or getattr(s.node, 'name', 'λ'), getattr(s.node, 'lineno', 0), tkey(s.self_val) if s.self_val is not None else None)

    def __repr__(s):
        return f"<fn {s.name or getattr(s.node, 'name', 'λ')}>"


class Ref:
    """reference to a package function / class / module / external / numpy function"""
    def __init__(s, kind, mod=None, node=None, name=''):
        s.kind = kind; s.mod = mod; s.node = node; s.name = name

    def key(s):
        return ('ref', s.kind, s.mod.short if s.mod else None, s.name)

    def __repr__(s):
        return f"<{s.kind} {s.name}>"


def tkey(v):
    if isinstance(v, (Poly, Rec, Cond, Opq, Comp, Closure, Ref, _Keyed)): return v.key()
    if isinstance(v, dict): return ('dict', tuple(sorted(((tkey(k), tkey(x)) for k, x in v.items()), key=repr)))
    if isinstance(v, tuple): return ('tuple', tuple(tkey(x) for x in v))
    if isinstance(v, list): return ('list', tuple(tkey(x) for x in v))
    if isinstance(v, (set, frozenset)): return ('set', tuple(sorted((tkey(x) for x in v), key=repr)))
    if isinstance(v, F): return ('poly', ((), (v, F(0))))
    return v


def same(a, b):
    return tkey(a) == tkey(b)


def as_poly(v):
    if isinstance(v, Poly): return v
    if isinstance(v, bool): return Poly.const(1 if v else 0)
    if isinstance(v, (int, F)): return Poly.const(F(v))
    if isinstance(v, float): return Poly.const(F(str(v)))
    if isinstance(v, Opq): return Poly.atom(('opq',) + tuple(tkey(x) for x in v.k))
    return Poly.atom(tkey(v))


def atomname(v):
    if isinstance(v, Poly):
        a = v.as_atom()
        if a is not None: return a
    return tkey(v)


def has_opaque(v) -> bool:
    """does the term contain something the engine did not interpret?"""
    k = tkey(v)
    def go(x):
        if isinstance(x, tuple):
            if x and x[0] == '?': return True
            if len(x) > 1 and x[0] == 'opq' and x[1] in OPAQUE_TAGS: return True
            return any(go(y) for y in x)
        return False
    return go(k)


def guard_atoms(g):
    return tkey(g)


# ====================================================================== evaluator
NPFUN = {'cos', 'sin', 'tan', 'abs', 'absolute', 'exp', 'sqrt', 'angle', 'conj', 'conjugate', 'floor', 'ceil', 'round', 'mod', 'isfinite',
         'radians', 'deg2rad', 'degrees', 'rad2deg', 'real', 'imag', 'sum', 'array', 'vectorize', 'ones', 'zeros', 'arange', 'isnan',
         'log10', 'phase', 'any', 'all', 'size', 'logical_not', 'sign', 'arctan2', 'hypot', 'asarray', 'float64', 'complex128'}
SYN = {'conjugate': 'conj', 'deg2rad': 'radians', 'rad2deg': 'degrees', 'phase': 'angle', 'absolute': 'abs', 'asarray': 'array',
       'fabs': 'abs', 'float64': 'float', 'complex128': 'float', 'identity': 'eye', 'rint': 'round', 'around': 'round', 'round_': 'round', 'remainder': 'mod',
       'diagonal': 'diag'}          # np.diagonal(M) of a matrix (the only legal operand) is np.diag(M)
_NP_BINOPS = {'multiply': ast.Mult, 'add': ast.Add, 'subtract': ast.Sub, 'divide': ast.Div, 'true_divide': ast.Div, 'matmul': ast.MatMult, 'dot': ast.MatMult}
REAL_HEADS = {'abs', 'real', 'imag', 'angle', 'floor', 'ceil', 'round', 'mod', 'num'}
MAXDEPTH = 10


class Evaluator:
    def __init__(s, prog: Program, real_atoms=(), facts=(), depth_limit=MAXDEPTH, record_classes=None):
        s.prog = prog
        s.real = set(real_atoms)
        s.facts: dict = {}                 # poly key -> set of relations '>0' '>=0' '<0' '<=0' '!=0' '==0'
        s._steps = 0; s.step_budget = 400000; s._callstack = []; s.reductions = []
        s._init_facts = list(facts)
        for p, rel in facts: s.add_fact(p, rel)
        s.assumed: list = []               # (guard, polarity) assumptions from pruned raise branches
        s.depth_limit = depth_limit
        s.calls: list = []                 # trace of inlined package functions
        s.stores: dict = {}                # (selfkey, attr) -> value stored through self.attr = ...
        s.loops: list = []                 # loop summaries (iter, targets, carried-env)
        s.mutations: list = []
        s.opaque_fns: set = set()          # {(module short, function name)} kept as uninterpreted functions
        s.opaque_classes: set = set()      # class names whose instances stay atoms
        s.integer: set = set()             # atoms declared integer-valued (mod folding)
        s.self_class = None                # (Module, ClassDef) of the atom `self_atom`: its private helper methods are inlined
        s.self_atom = 'self'
        s.mod_facts: dict = {}             # (poly key, modulus) -> residue, declared by a rule for a case split
        s.assume_finite = True             # np.isfinite(x) folds to True (recorded by the rules as an assumption)
        s.raises: list = []                # pruned raise branches: guard, polarity, exception name, path condition
        s._pc: list = []
        s.real_methods: set = set()        # names of methods (of uninterpreted objects) whose results are real numbers
        s.atom_types: dict = {}            # atom name -> builtin type name of the value it stands for (decides isinstance tests on inputs)
        s.raise_lookup_errors = False      # True: a decidable KeyError outside any try ends the evaluation (RAISE) instead of yielding an opaque value
        s.inline_str_classes: set = set()    # classes whose __str__ is unfolded when an instance is formatted (default: str(obj) stays a symbolic part)
        s.inline_self_methods: set = set()   # public methods of the class under analysis that are inlined as well (by default only private helpers are)
        s.last_raise = None        # name of the exception class of the last raise that ended an evaluation
        s._try_depth = 0
        s.atom_calls: list = []     # (receiver atom, method, args, kw) of every method called on an uninterpreted object, in evaluation order
        s.atom_methods: dict = {}   # (atom, method name) -> (Module, FunctionDef): methods of a typed atom that are inlined (self = the atom)
        s.builds: list = []      # every array-build term created, in order of creation (dicts: name, term, mod, line)
        s._build = None          # array-build mode: {'gens': [...], 'pc0': n, 'recs': {name: [...]}, 'ok': bool}
        s._undecided = 0                   # nesting depth of undecided guards (facts learnt there are scoped to the branch)
        s._scoped = 0                      # >0 while a branch is evaluated under scoped facts (restored afterwards)

    def fresh(s):
        """evaluator with the same configuration but none of the facts / stores learnt while evaluating code (used for specifications)"""
        e = Evaluator(s.prog, s.real, s._init_facts, s.depth_limit)
        e.opaque_fns = set(s.opaque_fns); e.opaque_classes = set(s.opaque_classes); e.self_class = s.self_class; e.self_atom = s.self_atom; e.integer = set(s.integer); e.mod_facts = dict(s.mod_facts); e.assume_finite = s.assume_finite; e.atom_methods = dict(s.atom_methods); e.inline_self_methods = set(s.inline_self_methods); e.atom_types = dict(s.atom_types); e.real_methods = set(s.real_methods)
        return e

    def learn(s, g, polarity: bool, exc=None, top=True):
        """a raising branch was pruned: its guard has the given truth value on every non-raising path"""
        if top:
            s.assumed.append((g, polarity))
            s.raises.append({'guard': g, 'polarity': polarity, 'exc': exc, 'pc': tuple(s._pc)})
        if s._undecided and not s._scoped: return
        if isinstance(g, Opq) and g.k and g.k[0] == 'cmp' and isinstance(g.k[2], Poly):
            op, d = g.k[1], g.k[2]
            rel = {('Gt', True): '>0', ('Gt', False): '<=0', ('GtE', True): '>=0', ('GtE', False): '<0',
                   ('Eq', True): '==0', ('Eq', False): '!=0', ('NotEq', True): '!=0', ('NotEq', False): '==0'}[(op, polarity)]
            s.add_fact(d, rel)
        elif isinstance(g, Cond) and (g.a in (True, False) or g.b in (True, False)):
            # a decision tree with truth leaves has the given value: an arm whose leaf is the OTHER value is excluded, so its test is decided
            if g.a is (not polarity): s.learn(g.g, False, exc, False); s.learn(g.b, polarity, exc, False) if isinstance(g.b, (Cond, Opq)) else None
            elif g.b is (not polarity): s.learn(g.g, True, exc, False); s.learn(g.a, polarity, exc, False) if isinstance(g.a, (Cond, Opq)) else None
        elif isinstance(g, Opq) and g.k and g.k[0] == 'not':
            s.learn(g.k[1], not polarity, exc, False)
        elif isinstance(g, Opq) and g.k and g.k[0] == 'or' and polarity is False:
            for x in g.k[1:]: s.learn(x, False, exc, False)
        elif isinstance(g, Opq) and g.k and g.k[0] == 'and' and polarity is True:
            for x in g.k[1:]: s.learn(x, True, exc, False)

    def refine_env(s, env, g, polarity):
        """a test is now known to have the given outcome on every path that goes on: locals that were computed as `g ? a : b` become the
        surviving arm (x = d.get(k, MISSING); if x is MISSING: continue / raise; ... x ...)"""
        if isinstance(g, Opq) and g.k and g.k[0] == 'not': g, polarity = g.k[1], not polarity
        if isinstance(g, bool): return
        e = env
        while e is not None:
            for nm, v in list(e.items()):
                if nm != '__parent__' and isinstance(v, Cond) and same(v.g, g): e[nm] = v.a if polarity else v.b
            e = e.get('__parent__')

    def _snap(s):
        return ({k: set(v) for k, v in s.facts.items()}, list(s.assumed))

    def _restore(s, snap):
        s.facts, s.assumed = {k: set(v) for k, v in snap[0].items()}, list(snap[1])

    def _assume_branch(s, g, polarity):
        """facts that hold inside one arm of an undecided test"""
        if isinstance(g, Opq) and g.k and g.k[0] == 'cmp' and isinstance(g.k[2], Poly) or (isinstance(g, Opq) and g.k and g.k[0] in ('and', 'or')):
            s.learn(g, polarity, None, False)
            if isinstance(g, Opq) and g.k[0] == 'not': return
        if isinstance(g, Opq) and g.k and g.k[0] == 'not':
            s._assume_branch(g.k[1], not polarity); return
        if isinstance(g, Opq) and not (g.k and g.k[0] == 'cmp' and isinstance(g.k[2], Poly)):
            s.assumed.append((g, polarity))

    # ------------------------------------------------------------------ facts / signs
    def add_fact(s, p: Poly, rel: str):
        s.facts.setdefault(p.key(), set()).add(rel)
        s.facts.setdefault(p.neg().key(), set()).add({'>0': '<0', '>=0': '<=0', '<0': '>0', '<=0': '>=0', '!=0': '!=0', '==0': '==0'}[rel])

    def sign(s, p: Poly):
        """subset of {'<0','=0','>0'} the polynomial may take (conservative)"""
        c = p.real_const()
        if c is not None: return {'>0'} if c > 0 else ({'<0'} if c < 0 else {'=0'})
        rel = s.facts.get(p.key(), set())
        out = {'<0', '=0', '>0'}
        if '>0' in rel: out &= {'>0'}
        if '>=0' in rel: out &= {'>0', '=0'}
        if '<0' in rel: out &= {'<0'}
        if '<=0' in rel: out &= {'<0', '=0'}
        if '!=0' in rel: out &= {'<0', '>0'}
        if '==0' in rel: out &= {'=0'}
        if len(out) < 3: return out
        # modulo a known equality e == 0:  p has the sign of p + e and of p - e  (n1 == zero and n1 != n2 give n2 != zero)
        if not getattr(s, '_in_eq', False):
            eqs = [k_ for k_, r_ in s.facts.items() if '==0' in r_]
            if eqs and len(eqs) <= 8:
                s._in_eq = True
                try:
                    for k_ in eqs:
                        e_ = term_from_key(k_)
                        if not isinstance(e_, Poly): continue
                        q_ = p + e_
                        if q_.real_const() is None and q_.key() not in s.facts: continue
                        sg_ = s.sign(q_)
                        if len(sg_) < 3: return sg_
                finally:
                    s._in_eq = False
        signs = []
        for k, (a, b) in p.t.items():
            if b != 0: return out
            sg = {'>0'} if a > 0 else {'<0'}
            for at, e in k:
                asg = s._atom_sign(at)
                if asg is None: return out
                if e.denominator != 1 or e % 2 != 0:
                    sg = _mul_sign(sg, asg)
                else:
                    sg = _mul_sign(sg, {'>0'} if asg <= {'>0', '<0'} else {'>0', '=0'})
            signs.append(sg)
        if all(x <= {'>0', '=0'} for x in signs):
            return {'>0'} if any(x == {'>0'} for x in signs) else {'>0', '=0'}
        if all(x <= {'<0', '=0'} for x in signs):
            return {'<0'} if any(x == {'<0'} for x in signs) else {'<0', '=0'}
        return out

    def _atom_sign(s, at):
        if isinstance(at, tuple) and at and at[0] == 'abs': return {'>0', '=0'}
        if isinstance(at, tuple) and at and at[0] == 'num': return {'>0'}
        if at == 'pi': return {'>0'}
        sg = s.sign(Poly.atom(at)) if Poly.atom(at).key() in s.facts else None
        return sg

    # ------------------------------------------------------------------ name resolution
    def ref_of(s, r):
        if r is None: return None
        if r[0] == 'func': return Ref('func', r[1], r[2], r[2].name)
        if r[0] == 'class': return Ref('class', r[1], r[2], r[2].name)
        if r[0] == 'mod': return Ref('module', r[1], None, r[1].short)
        if r[0] == 'ext':
            if r[1] in ('math.pi', 'numpy.pi', 'cmath.pi', 'scipy.pi'): return Poly.atom('pi')
            if r[1] in ('math.inf', 'numpy.inf', 'cmath.inf'): return Poly.atom('inf')
            if r[1].startswith('builtins.') and r[1].count('.') == 1: return Ref('builtin', None, None, r[1].split('.')[1])        # builtins.filter is filter
            if r[1].split('.')[0] in ('math', 'cmath') and r[1].split('.')[-1] in NPFUN | {'degrees', 'radians', 'phase'}: return Ref('npfun', None, None, SYN.get(r[1].split('.')[-1], r[1].split('.')[-1]))
            return Ref('ext', None, None, r[1])
        if r[0] == 'unresolved': return Opq('?', f'unresolved {r[1].short}.{r[2]}')
        if r[0] == 'member': return Ref('member', r[1], r[2], getattr(r[2], 'name', ''))
        return None

    def lookup(s, name, env, mod: Module):
        e = env
        while e is not None:
            if name in e: return e[name]
            e = e.get('__parent__')
        r = s.prog.resolve(mod, name)
        if r is not None:
            if r[0] == 'var':
                if isinstance(r[2], ast.Call) and isinstance(r[2].func, ast.Name) and r[2].func.id == 'object' and not r[2].args:
                    return Poly.atom(('sentinel', r[1].name, r[3]))        # a unique marker object: identical only to itself
                if s.prog.is_filled_at_import(r[1], r[3]):
                    # a module-level table completed by top-level statements (registration decorators, item stores, update): its final content
                    v_ = s.prog.module_namespace(r[1]).get(r[3])
                    if v_ is not None: return v_
                return s.ev(r[2], {'__parent__': None}, r[1], 0)
            rv = s.ref_of(r)
            if rv is not None: return rv
        if name in ('inf',): return Poly.atom('inf')
        if name in ('pi',): return Poly.atom('pi')
        if name in ('True', 'False', 'None'): return {'True': True, 'False': False, 'None': None}[name]
        return Ref('builtin', None, None, name)

    # ------------------------------------------------------------------ expressions
    def e__TermNode(s, e, env, mod, depth): return e.term

    def ev(s, e, env, mod, depth=0):
        # a budget of evaluation steps per evaluator: recursive converters unfold exponentially up to the depth limit; beyond the budget the
        # value is simply not known (UNKNOWN downstream), the analysis itself always terminates
        s._steps += 1
        if s._steps > s.step_budget: return Opq('?', 'evaluation budget exhausted')
        m = getattr(s, 'e_' + type(e).__name__, None)
        if m is None: return Opq('?', type(e).__name__ + ':' + ast.unparse(e)[:60])
        return m(e, env, mod, depth)

    def e_Constant(s, e, env, mod, depth):
        v = e.value
        if isinstance(v, bool) or v is None or isinstance(v, str): return v
        if isinstance(v, int): return Poly.const(F(v))
        if isinstance(v, float): return Poly.const(F(str(v)))
        if isinstance(v, complex): return Poly.const(F(str(v.real)), F(str(v.imag)))
        if v is Ellipsis: return None
        return Opq('const', repr(v))

    def e_Name(s, e, env, mod, depth):
        v = s.lookup(e.id, env, mod)
        if isinstance(v, Opq) and v.k and v.k[0] == 'build':
            b_ = s._blockify(v)          # a zero matrix whose quadrants were assigned by slices, read as a value, is the block matrix
            if b_ is not None: return b_
        return v

    def _blockify(s, bt):
        """M = zeros((R, C)); M[:p, :q] = X; M[p:, q:] = Y  (each store one quadrant of the 2 x 2 partition at (p, q), no quadrant twice, no other
        store)  is  block([[X, 0], [0, Y]]) -- the same normal form as np.block / nested hstack-vstack.  None when the build is anything else"""
        cache = s.__dict__.setdefault('_blockify_cache', {})
        ck = id(bt)
        if ck in cache and cache[ck][0] is bt: return cache[ck][1]
        out = None
        try:
            base, recs = bt.k[1], bt.k[2]
            ok = isinstance(base, Opq) and base.k and base.k[0] == 'np.zeros' and len(base.k) >= 2 and isinstance(base.k[1], (tuple, list)) and len(base.k[1]) == 2 \
                and all(isinstance(x_, Poly) for x_ in base.k[1]) and all(isinstance(x_, Opq) and x_.k[0] == 'kw' and x_.k[1] == 'dtype' for x_ in base.k[2:]) and 1 <= len(recs) <= 4
            split = [None, None]; blocks = {}
            if ok:
                tot = list(base.k[1])
                for r_ in recs:
                    if not (isinstance(r_, Opq) and r_.k[0] == 'st' and not r_.k[1] and r_.k[2] is True and len(r_.k[3]) == 2 and r_.k[5] is False): ok = False; break
                    pos = []
                    for ax_, ix_ in enumerate(r_.k[3]):
                        if not (isinstance(ix_, Opq) and ix_.k[0] == 'slice' and len(ix_.k) == 4 and ix_.k[3] is None): ok = False; break
                        lo, up = ix_.k[1], ix_.k[2]
                        lo0 = lo is None or (isinstance(lo, Poly) and lo.is_zero())
                        upN = up is None or (isinstance(up, Poly) and same(up, tot[ax_]))
                        if lo0 and not upN and isinstance(up, Poly): which, p_ = 0, up
                        elif upN and not lo0 and isinstance(lo, Poly): which, p_ = 1, lo
                        else: ok = False; break
                        if split[ax_] is None: split[ax_] = p_
                        elif not same(split[ax_], p_): ok = False; break
                        pos.append(which)
                    if not ok: break
                    if tuple(pos) in blocks: ok = False; break
                    blocks[tuple(pos)] = r_.k[4]
            if ok and split[0] is not None and split[1] is not None:
                sizes = [[split[a_], tot[a_] - split[a_]] for a_ in (0, 1)]
                rows_ = [[blocks.get((i_, j_), Opq('np.zeros', (sizes[0][i_], sizes[1][j_]))) for j_ in (0, 1)] for i_ in (0, 1)]
                out = s.npcall('block', [rows_], {})
        except Exception:
            out = None
        cache[ck] = (bt, out)
        return out

    def e_UnaryOp(s, e, env, mod, depth):
        v = s.ev(e.operand, env, mod, depth)
        if isinstance(e.op, ast.USub): return s.lift1(lambda x: as_poly(x).neg(), v)
        if isinstance(e.op, ast.UAdd): return v
        if isinstance(e.op, ast.Not): return s.negate(v)
        if isinstance(e.op, ast.Invert): return Opq('invert', v)
        return Opq('?', ast.unparse(e))

    def negate(s, v):
        if isinstance(v, Poly): v = s.truth(v)
        if isinstance(v, bool): return not v
        if isinstance(v, Cond): return Cond(v.g, s.negate(v.a), s.negate(v.b))
        if isinstance(v, Opq) and v.k and v.k[0] == 'not': return v.k[1]
        if isinstance(v, Opq) and v.k and v.k[0] == 'cmp':
            op, d = v.k[1], v.k[2]
            if op == 'Gt': return s.mkcmp('GtE', d.neg()) if isinstance(d, Poly) else Opq('not', v)
            if op == 'GtE': return s.mkcmp('Gt', d.neg()) if isinstance(d, Poly) else Opq('not', v)
            if op == 'Eq': return Opq('cmp', 'NotEq', *v.k[2:])
            if op == 'NotEq': return Opq('cmp', 'Eq', *v.k[2:])
        if isinstance(v, Opq) and v.k and v.k[0] in ('and', 'or'):
            parts = [s.negate(x) for x in v.k[1:]]
            return s.mkbool('or' if v.k[0] == 'and' else 'and', parts)
        if isinstance(v, (list, tuple, dict, str)): return len(v) == 0
        if v is None: return True
        return Opq('not', v)

    def lift1(s, f, v):
        if isinstance(v, Cond): return Cond(v.g, s.lift1(f, v.a), s.lift1(f, v.b))
        return f(v)

    def lift2(s, f, a, b):
        if isinstance(a, Cond): return Cond(a.g, s.lift2(f, a.a, b), s.lift2(f, a.b, b))
        if isinstance(b, Cond): return Cond(b.g, s.lift2(f, a, b.a), s.lift2(f, a, b.b))
        return f(a, b)

    def binop(s, op, a, b):
        # a truth value in arithmetic is 1 or 0: (1 - 2*bool(r)) * x is x unless r, then -x
        if isinstance(op, (ast.Add, ast.Sub, ast.Mult)):
            if _is_boolterm(a) and isinstance(b, (Poly, Cond, int, F)) and not isinstance(b, bool): a = s.mkcond(a, Poly.const(1), Poly.const(0))
            if _is_boolterm(b) and isinstance(a, (Poly, Cond, int, F)) and not isinstance(a, bool): b = s.mkcond(b, Poly.const(1), Poly.const(0))
        if s._enum_member(a) and a.f.get('_enum_mixin_') in ('int', 'str'): a = a.f['_value_']
        if s._enum_member(b) and b.f.get('_enum_mixin_') in ('int', 'str'): b = b.f['_value_']
        return s.lift2(lambda x, y: s._binop(op, x, y), a, b)

    def _binop(s, op, a, b):
        if isinstance(op, ast.Add):
            if isinstance(a, list) and isinstance(b, list): return a + b
            if isinstance(a, tuple) and isinstance(b, tuple): return a + b
            if isinstance(a, str) and isinstance(b, str): return a + b
            if (isinstance(a, str) or (isinstance(a, Opq) and a.k and a.k[0] in ('strcat', 'fmt'))) and (isinstance(b, str) or (isinstance(b, Opq) and b.k and b.k[0] in ('strcat', 'fmt'))):
                return s.mkstr([a, b])
            if isinstance(a, (list, Comp)) and isinstance(b, (list, Comp)) or (isinstance(a, Opq) and a.k[0] in ('sorted', 'concat', 'list')) or (isinstance(b, Opq) and b.k[0] in ('sorted', 'concat', 'list')) \
                    or (isinstance(a, (list, Comp)) and isinstance(b, Poly) and b.as_atom() is not None and not isinstance(a, list)) or (isinstance(b, Comp) and isinstance(a, Poly) and a.as_atom() is not None):
                parts_ = []
                for x_ in (a, b): parts_ += list(x_.k[1:]) if (isinstance(x_, Opq) and x_.k[0] == 'concat') else [x_]
                if any(isinstance(x_, list) and not x_ for x_ in parts_):
                    parts_ = [x_ for x_ in parts_ if not (isinstance(x_, list) and not x_)]         # [] + xs has the items of xs
                    if len(parts_) == 1 and (isinstance(parts_[0], (list, Comp)) or (isinstance(parts_[0], Opq) and parts_[0].k[0] in ('sorted', 'list'))): return parts_[0]
                    if not parts_: return []
                return Opq('concat', *parts_)
        if isinstance(op, ast.Mult) and isinstance(a, (list, tuple)) and isinstance(b, Poly) and b.real_const() is not None and b.real_const().denominator == 1:
            return a * int(b.real_const())
        if isinstance(op, ast.Mult) and isinstance(b, (list, tuple)) and isinstance(a, Poly) and a.real_const() is not None and a.real_const().denominator == 1:
            return b * int(a.real_const())
        if isinstance(op, ast.Mod) and isinstance(a, str): return Opq('fstr', a)
        if isinstance(op, ast.BitOr) and isinstance(a, dict) and isinstance(b, dict): return {**a, **b}          # d1 | d2
        if isinstance(op, ast.BitOr) or isinstance(op, ast.BitAnd):
            return Opq('bitop', type(op).__name__, a, b)
        pa, pb = as_poly(a), as_poly(b)
        if isinstance(op, ast.Add): return pa + pb
        if isinstance(op, ast.Sub): return pa - pb
        if isinstance(op, ast.Mult): return pa * pb
        if isinstance(op, ast.Div): return pa * pb.inv()
        if isinstance(op, ast.Mod):
            ca, cb = pa.real_const(), pb.real_const()
            if ca is not None and cb is not None and cb != 0: return Poly.const(ca % cb)
            if cb is not None and (pa.key(), cb) in s.mod_facts: return Poly.const(s.mod_facts[(pa.key(), cb)])
            if cb is not None and cb != 0 and cb.denominator == 1 and pa.t:
                # polynomial in declared integer atoms whose non-constant coefficients are multiples of the modulus
                okint = True; const = F(0)
                for k, (a, b) in pa.t.items():
                    if b != 0: okint = False; break
                    if k == (): const = a; continue
                    if not all(at in s.integer and e.denominator == 1 and e > 0 for at, e in k) or a.denominator != 1 or a % cb != 0: okint = False; break
                if okint and const.denominator == 1: return Poly.const(const % cb)
            return Poly.atom(('mod', pa.key(), pb.key()))
        if isinstance(op, ast.FloorDiv): return Poly.atom(('floor', (pa * pb.inv()).key()))
        if isinstance(op, ast.Pow):
            c = pb.real_const()
            if c is not None: return pa.powr(c)
            return Poly.atom(('pow', pa.key(), pb.key()))
        if isinstance(op, ast.MatMult): return Poly.atom(('matmul', pa.key(), pb.key()))
        return Poly.atom(('?', type(op).__name__, pa.key(), pb.key()))

    def e_BinOp(s, e, env, mod, depth):
        return s.binop(e.op, s.ev(e.left, env, mod, depth), s.ev(e.right, env, mod, depth))

    def mkbool(s, kind, vs):
        flat = []
        for v in vs:
            if isinstance(v, Opq) and v.k and v.k[0] == kind: flat += list(v.k[1:])
            else: flat.append(v)
        if kind == 'and':
            if any(v is False for v in flat): return False
            flat = [v for v in flat if v is not True]
            if not flat: return True
        else:
            if any(v is True for v in flat): return True
            flat = [v for v in flat if v is not False]
            if not flat: return False
        uniq = {}
        for v in flat: uniq.setdefault(repr(tkey(v)), v)
        if kind == 'or' and len(uniq) > 1:
            # identity implies equality:  a is b or a == b   is   a == b
            eqs_ = [v.k[2] for v in uniq.values() if isinstance(v, Opq) and len(v.k) == 3 and v.k[0] == 'cmp' and v.k[1] == 'Eq' and isinstance(v.k[2], Poly)]
            for k_, v in list(uniq.items()):
                if isinstance(v, Opq) and len(v.k) == 3 and v.k[0] == 'is' and isinstance(v.k[1], Poly) and isinstance(v.k[2], Poly):
                    d_ = v.k[1] - v.k[2]
                    if any(same(d_, e_) or same(d_.neg(), e_) for e_ in eqs_): del uniq[k_]
        flat = [uniq[k] for k in sorted(uniq)]
        return flat[0] if len(flat) == 1 else Opq(kind, *flat)

    def refold(s, g):
        """fold a condition computed EARLIER again under the facts known NOW (a boolean kept in a local and tested after a guard raised)"""
        if isinstance(g, Opq) and g.k:
            if g.k[0] == 'cmp' and len(g.k) == 3 and isinstance(g.k[2], Poly) and g.k[1] in ('Gt', 'GtE', 'Eq', 'NotEq'):
                return s.mkcmp(g.k[1], g.k[2])
            if g.k[0] in ('and', 'or'):
                return s.mkbool(g.k[0], [s.refold(x) for x in g.k[1:]])
            if g.k[0] == 'not':
                r = s.refold(g.k[1])
                return s.negate(r) if r is not g.k[1] else g
            for gg, pol in s.assumed:
                if isinstance(gg, Opq) and same(gg, g): return pol
        return g

    def truth(s, v):
        """truthiness of a term as guard"""
        if isinstance(v, bool): return v
        if isinstance(v, BoolSel): return s.mkbool(v.op, [v.g, s.truth(v.rest)])
        if isinstance(v, Opq) and (s.facts or s.assumed): return s.refold(v)
        if isinstance(v, Cond) and (s.facts or s.assumed): return s.mkcond(v.g, s.truth(v.a), s.truth(v.b))
        if isinstance(v, Cond) and not isinstance(v, BoolSel) and all(isinstance(l_, bool) or _is_boolterm(l_) for _, l_ in paths_of(v)):
            return s.mkcond(v.g, s.truth(v.a), s.truth(v.b))          # a decision tree over truth values, as the connective it spells
        if v is None: return False
        if isinstance(v, (list, tuple, dict, str)): return len(v) > 0
        if isinstance(v, Poly):
            c = v.real_const()
            if c is not None: return c != 0
            at_ = v.as_atom()
            if isinstance(at_, tuple) and len(at_) == 3 and at_[0] == '.' and at_[1] == 'self' and s.self_class is not None:
                # a field declared as a container: it is true when it is not empty
                mem_ = s.prog.find_member(s.self_class[0], s.self_class[1], at_[2])
                ann_ = ast.unparse(mem_[1].annotation) if mem_ and isinstance(mem_[1], ast.AnnAssign) else ''
                if ann_.split('[')[0].split('.')[-1] in ('list', 'dict', 'set', 'tuple', 'List', 'Dict', 'Set', 'Tuple', 'Sequence', 'Mapping', 'frozenset'):
                    return s.mkcmp('NotEq', Poly.atom(('len', tkey(v))))
            return s.mkcmp('NotEq', v)
        return v

    def e_BoolOp(s, e, env, mod, depth):
        raw = [s.ev(v, env, mod, depth) for v in e.values]
        op = 'and' if isinstance(e.op, ast.And) else 'or'
        if all(isinstance(v, bool) or _is_boolterm(v) for v in raw):
            return s.mkbool(op, [s.truth(v) for v in raw])
        # `a or b` / `a and b` select one of their OPERANDS (`xs or [default]`); in a truth context (truth()) the selection is the connective
        out = raw[-1]
        for v in reversed(raw[:-1]):
            t = s.truth(v)
            if t is True: out = v if op == 'or' else out
            elif t is False: out = out if op == 'or' else v
            else: out = BoolSel(op, t, v, out)
        return out

    def mkcmp(s, op, d: Poly):
        """comparison of d against 0, op in Gt GtE Eq NotEq; folded with sign facts when decidable"""
        if op in ('Eq', 'NotEq') and isinstance(d, Poly):
            # flag == False / flag != False with a truth-valued term as flag: the negated / the plain test
            sg_ = d.single()
            if sg_ is not None and len(sg_[0]) == 1 and sg_[0][0][1] == 1 and isinstance(sg_[0][0][0], tuple) and sg_[0][0][0][:1] == ('opq',) and len(sg_[0][0][0]) > 1 \
                    and sg_[0][0][0][1] in ('in', 'cmp', 'and', 'or', 'not', 'is', 'any', 'all'):
                t_ = term_from_key(sg_[0][0][0])
                if t_ is not None and _is_boolterm(t_): return s.negate(t_) if op == 'Eq' else t_
        sg = s.sign(d)
        if op == 'Gt':
            if sg == {'>0'}: return True
            if sg <= {'<0', '=0'}: return False
        elif op == 'GtE':
            if sg <= {'>0', '=0'}: return True
            if sg == {'<0'}: return False
        elif op == 'Eq':
            if sg == {'=0'}: return True
            if '=0' not in sg: return False
        elif op == 'NotEq':
            if sg == {'=0'}: return False
            if '=0' not in sg: return True
        if op in ('Gt', 'GtE'):
            # a length is a non-negative integer: len(x) > c / len(x) >= c / len(x) < c against a small constant is a statement about the
            # values 0 .. c, written out so that `len(x) > 1` and `not (len(x) == 0 or len(x) == 1)` are one normal form
            lc = _len_vs_const(d)
            if lc is not None:
                sign_, at_, c_ = lc          # d == sign_ * len + c_
                L = Poly.atom(at_)
                if sign_ == 1:    # len + c_ (>|>=) 0   <=>  len > -c_  (Gt)  /  len >= -c_ (GtE)
                    lo = -c_ + (1 if op == 'Gt' else 0)          # len >= lo
                    if lo <= 0: return True
                    if lo <= 4: return s.mkbool('and', [s.mkcmp('NotEq', L - Poly.const(k_)) for k_ in range(lo)])
                else:             # -len + c_ (>|>=) 0  <=>  len < c_ (Gt)  /  len <= c_ (GtE)
                    hi = c_ - (1 if op == 'Gt' else 0)           # len <= hi
                    if hi < 0: return False
                    if hi <= 3: return s.mkbool('or', [s.mkcmp('Eq', L - Poly.const(k_)) for k_ in range(hi + 1)])
        if op in ('Eq', 'NotEq'):
            k1, k2 = d.key(), d.neg().key()
            if repr(k2) < repr(k1): d = d.neg()
        return Opq('cmp', op, d)

    def compare(s, op, a, b):
        if isinstance(a, Cond) or isinstance(b, Cond):
            # distributing a comparison over two decision trees multiplies their sizes: charged to the evaluation budget, and past a size limit
            # the comparison stays an uninterpreted test (UNKNOWN downstream, never a verdict)
            s._steps += 8
            def leaves_(x_, cap_=400):
                if not isinstance(x_, Cond) or cap_ <= 0: return 1
                n_ = leaves_(x_.a, cap_ - 1)
                return n_ + leaves_(x_.b, cap_ - n_)
            if s._steps > s.step_budget or (isinstance(a, Cond) and isinstance(b, Cond) and leaves_(a) * leaves_(b) > 4096):
                return Opq('?', 'comparison of two large conditional values')
        if isinstance(a, Cond): return s.mkcond(a.g, s.compare(op, a.a, b), s.compare(op, a.b, b))
        if isinstance(b, Cond): return s.mkcond(b.g, s.compare(op, a, b.a), s.compare(op, a, b.b))
        if isinstance(op, (ast.Eq, ast.NotEq, ast.Is, ast.IsNot)) and (s._enum_member(a) or s._enum_member(b)):
            want = isinstance(op, (ast.Eq, ast.Is))
            if s._enum_member(a) and s._enum_member(b):
                return ((a.clsref[1] is b.clsref[1]) and a.f['_name_'] == b.f['_name_']) == want          # members are singletons
            e_, o_ = (a, b) if s._enum_member(a) else (b, a)
            if isinstance(op, (ast.Is, ast.IsNot)) and (o_ is None or isinstance(o_, (str, bool, int, F, list, tuple, dict, Ref, Closure)) or (isinstance(o_, Poly) and o_.is_const())): return not want
            if isinstance(op, (ast.Eq, ast.NotEq)):
                if e_.f.get('_enum_mixin_') in ('int', 'str'): return s.compare(op, e_.f['_value_'], o_) if e_ is a else s.compare(op, o_, e_.f['_value_'])
                if o_ is None or isinstance(o_, (str, bool, int, F, list, tuple, dict)) or (isinstance(o_, Poly) and o_.is_const()): return not want      # a plain Enum member equals only itself
        if (s._enum_member(a) and a.f.get('_enum_mixin_') == 'int') and isinstance(op, (ast.Lt, ast.LtE, ast.Gt, ast.GtE)): a = a.f['_value_']
        if (s._enum_member(b) and b.f.get('_enum_mixin_') == 'int') and isinstance(op, (ast.Lt, ast.LtE, ast.Gt, ast.GtE)): b = b.f['_value_']
        if isinstance(op, (ast.In, ast.NotIn)):
            if isinstance(b, Opq) and len(b.k) == 2 and b.k[0] in ('list', 'tuple') and not isinstance(b.k[1], Comp): b = b.k[1]       # membership in a plain copy
            r = None
            if isinstance(b, (list, tuple)) and not isinstance(a, (Poly, Opq, Cond)) or (isinstance(b, (list, tuple)) and all(not isinstance(x, (Opq, Cond)) for x in b) and isinstance(a, (str, Poly)) and (isinstance(a, str) or a.is_const())):
                r = any(same(a, x) for x in b)
            elif isinstance(b, dict) and (isinstance(a, str) or (isinstance(a, Poly) and a.is_const())) and _const_keyed(b):
                r = any(same(a, x.v if isinstance(x, _HK) else x) for x in b)
            elif isinstance(b, dict) and isinstance(a, tuple) and all(isinstance(x_, str) for x_ in a) \
                    and all(isinstance(k_.v if isinstance(k_, _HK) else k_, str) or (isinstance(k_.v if isinstance(k_, _HK) else k_, tuple) and all(isinstance(y_, str) for y_ in (k_.v if isinstance(k_, _HK) else k_))) for k_ in b):
                r = any((k_.v if isinstance(k_, _HK) else k_) == a for k_ in b)          # a tuple of literal strings looked up in a table keyed by such tuples
            if r is None and isinstance(b, (list, tuple)) and 0 < len(b) <= 8 and all(_is_concrete(x) or isinstance(x, Poly) for x in b) and not isinstance(a, (list, tuple, dict)):
                r = s.mkbool('or', [s.compare(ast.Eq(), a, x) for x in b])
            if r is None: r = Opq('in', a, b)
            return r if isinstance(op, ast.In) else s.negate(r)
        if isinstance(op, (ast.Is, ast.IsNot)):
            if b is None and isinstance(a, Opq) and a.k and a.k[0] == 'exc': return isinstance(op, ast.IsNot)
            if b is None and isinstance(a, Opq) and len(a.k) >= 3 and a.k[0] == 'dispatch' and isinstance(a.k[1], dict) and a.k[1] and all(v_ is not None and not isinstance(v_, Cond) for v_ in a.k[1].values()):
                return isinstance(op, ast.IsNot)          # an entry of a table none of whose entries is None
            if b is None and isinstance(a, Poly) and s.self_class is not None and a.as_atom() == s.self_atom: return isinstance(op, ast.IsNot)     # the object itself is never None
            if b is None and isinstance(a, Poly) and not a.is_const():
                at_ = a.as_atom()
                # the result of arithmetic or of a numeric function is a number, never None
                if at_ is None or (isinstance(at_, tuple) and at_ and at_[0] in ('round', 'abs', 'real', 'imag', 'sqrt', 'exp', 'cos', 'sin', 'tan', 'angle', 'len', 'int', 'floor', 'ceil', 'conj', 'log', 'log10')):
                    return isinstance(op, ast.IsNot)
            if b is None and not isinstance(a, (Opq,)) and not (isinstance(a, Poly) and not a.is_const()):
                return (a is None) == isinstance(op, ast.Is)
            sa, sb = _sentinel(a), _sentinel(b)
            if sa is not None or sb is not None:
                if sa is not None and sb is not None: return (sa == sb) == isinstance(op, ast.Is)
                other = b if sa is not None else a
                if other is None or isinstance(other, (Ref, Closure, Rec, str, bool, list, tuple, dict)) or (isinstance(other, Poly) and other.is_const()):
                    return not isinstance(op, ast.Is)
                oat_ = other.as_atom() if isinstance(other, Poly) else None
                if isinstance(other, Poly) and (oat_ is None or isinstance(oat_, str) or (isinstance(oat_, tuple) and oat_ and oat_[0] in ('[]', '.', 'call'))):
                    return not isinstance(op, ast.Is)          # something read from the inputs / computed is never the module's private marker object
                if isinstance(other, Opq) and other.k and other.k[0] == 'dispatch' and isinstance(other.k[1], dict) and not any(_sentinel(v_) is not None for v_ in other.k[1].values()):
                    return not isinstance(op, ast.Is)
            r = Opq('is', a, b)
            return r if isinstance(op, ast.Is) else s.negate(r)
        if isinstance(a, str) and isinstance(b, str):
            return {ast.Eq: a == b, ast.NotEq: a != b}.get(type(op), Opq('?', 'strcmp'))
        if isinstance(a, bool) and isinstance(b, bool):
            return {ast.Eq: a == b, ast.NotEq: a != b}.get(type(op), Opq('?', 'boolcmp'))
        if (isinstance(a, (Poly, int, bool, F)) or isinstance(b, (Poly, int, bool, F))) and not isinstance(a, (str, list, tuple, dict, Rec)) and not isinstance(b, (str, list, tuple, dict, Rec)) and a is not None and b is not None:
            d = as_poly(a) - as_poly(b)
            if isinstance(op, ast.Gt): return s.mkcmp('Gt', d)
            if isinstance(op, ast.GtE): return s.mkcmp('GtE', d)
            if isinstance(op, ast.Lt): return s.mkcmp('Gt', d.neg())
            if isinstance(op, ast.LtE): return s.mkcmp('GtE', d.neg())
            if isinstance(op, ast.Eq): return s.mkcmp('Eq', d)
            if isinstance(op, ast.NotEq): return s.mkcmp('NotEq', d)
        if isinstance(op, (ast.Eq, ast.NotEq)) and _pair_set(a) is not None and _pair_set(b) is not None:
            # {a, b} == {c, d}  <=>  (a == c and b == d) or (a == d and b == c)
            (p, q), (u, v) = _pair_set(a), _pair_set(b)
            r = s.mkbool('or', [s.mkbool('and', [s.compare(ast.Eq(), p, u), s.compare(ast.Eq(), q, v)]),
                                s.mkbool('and', [s.compare(ast.Eq(), p, v), s.compare(ast.Eq(), q, u)])])
            return r if isinstance(op, ast.Eq) else s.negate(r)
        if isinstance(op, (ast.Eq, ast.NotEq)):
            if same(a, b) and not has_opaque(a): return isinstance(op, ast.Eq)
            if isinstance(a, (list, tuple)) and isinstance(b, (list, tuple)) and all(_is_concrete(x) for x in list(a) + list(b)):
                return (tkey(list(a)) == tkey(list(b))) == isinstance(op, ast.Eq)
            ka, kb = sorted([a, b], key=lambda x: repr(tkey(x)))
            return Opq('cmp', type(op).__name__, ka, kb)
        return Opq('cmp', type(op).__name__, a, b)

    def e_Compare(s, e, env, mod, depth):
        left = s.ev(e.left, env, mod, depth)
        parts = []
        for op, c in zip(e.ops, e.comparators):
            right = s.ev(c, env, mod, depth)
            parts.append(s.compare(op, left, right)); left = right
        return parts[0] if len(parts) == 1 else s.mkbool('and', parts)

    def e_IfExp(s, e, env, mod, depth):
        g = s.truth(s.ev(e.test, env, mod, depth))
        if g is True: return s.ev(e.body, env, mod, depth)
        if g is False: return s.ev(e.orelse, env, mod, depth)
        s._undecided += 1; s._scoped += 1
        snap = s._snap()
        try:
            s._assume_branch(g, True); a = s.ev(e.body, env, mod, depth); s._restore(snap)
            s._assume_branch(g, False); b = s.ev(e.orelse, env, mod, depth); s._restore(snap)
        finally:
            s._undecided -= 1; s._scoped -= 1
        return s.mkcond(g, a, b)

    def mkcond(s, g, a, b):
        """canonical polarity: strip 'not', order Eq before NotEq, GtE before a negated Gt"""
        if isinstance(g, Poly): g = s.truth(g)
        if isinstance(g, Cond):
            return Cond(g.g, s.mkcond(g.a, a, b), s.mkcond(g.b, a, b))
        if g is True: return a
        if g is False: return b
        if a is True and b is False: return g
        if a is False and b is True: return s.negate(g)
        # a conditional between truth values is the connective:  g ? True : b == g or b,  g ? a : True == not g or a,  g ? False : b == not g and b,  g ? a : False == g and a
        if isinstance(g, Opq) and not (isinstance(g, Opq) and g.k and g.k[0] in ('and', 'or')):
            if a is True and _is_boolterm(b): return s.mkbool('or', [g, b])
            if b is True and _is_boolterm(a): return s.mkbool('or', [s.negate(g), a])
            if a is False and _is_boolterm(b): return s.mkbool('and', [s.negate(g), b])
            if b is False and _is_boolterm(a): return s.mkbool('and', [g, a])
        if a is RAISE and b is RAISE: return RAISE
        if a is RAISE:
            s.learn(g, False); return b
        if b is RAISE:
            s.learn(g, True); return a
        if isinstance(g, Opq) and g.k and g.k[0] == 'not': return s.mkcond(g.k[1], b, a)
        if isinstance(g, Opq) and g.k and g.k[0] == 'cmp' and g.k[1] == 'NotEq': return s.mkcond(Opq('cmp', 'Eq', *g.k[2:]), b, a)
        if isinstance(g, Opq) and len(g.k) == 3 and g.k[0] == 'cmp' and g.k[1] == 'Eq' and isinstance(g.k[2], Poly) and isinstance(b, Comp) and b.gens \
                and ((isinstance(a, (list, dict, tuple)) and not a) or (isinstance(a, Opq) and a.k == ('set',))):
            # xs empty ? <empty container> : [f(x) for x in xs ...]   is the comprehension (over nothing it is the empty container anyway)
            lc_ = _len_vs_const(g.k[2])
            if lc_ is not None and lc_[2] == 0 and isinstance(lc_[1], tuple) and lc_[1][:1] == ('len',) and len(lc_[1]) == 2 and lc_[1][1] == tkey(_iter_view(b.gens[0][0])) \
                    and {list: 'list', dict: 'dict', tuple: 'list'}.get(type(a), 'set') == ('list' if b.kind == 'gen' else b.kind):
                return b
        # decision-tree normal form: (g1 and g2) ? a : b  ==  g1 ? (g2 ? a : b) : b ;  (g1 or g2) ? a : b == g1 ? a : (g2 ? a : b)
        if isinstance(g, Opq) and g.k and g.k[0] == 'and':
            rest = g.k[2] if len(g.k) == 3 else Opq('and', *g.k[2:])
            return s.mkcond(g.k[1], s.mkcond(rest, a, b), b)
        if isinstance(g, Opq) and g.k and g.k[0] == 'or':
            rest = g.k[2] if len(g.k) == 3 else Opq('or', *g.k[2:])
            return s.mkcond(g.k[1], a, s.mkcond(rest, a, b))
        return Cond(g, a, b)

    def e_Tuple(s, e, env, mod, depth):
        out = []
        for x in e.elts:
            if isinstance(x, ast.Starred):
                v = s.ev(x.value, env, mod, depth)
                if isinstance(v, (list, tuple)): out += list(v)
                elif isinstance(v, dict): out += [k.v if isinstance(k, _HK) else k for k in v]
                else: out.append(Opq('*', v))
            else: out.append(s.ev(x, env, mod, depth))
        return tuple(out)

    def e_List(s, e, env, mod, depth):
        r = list(s.e_Tuple(e, env, mod, depth))
        if len(r) == 1 and isinstance(r[0], Opq) and r[0].k and r[0].k[0] == '*' and len(e.elts) == 1: return s.builtin('list', [r[0].k[1]], {}, mod, depth)   # [*x] == list(x)
        if len(r) > 1 and all(isinstance(x, Opq) and x.k and x.k[0] == '*' for x in r) and all(isinstance(x, ast.Starred) for x in e.elts):
            out_ = r[0].k[1]
            for x in r[1:]: out_ = s._binop(ast.Add(), out_ if not isinstance(out_, Poly) else out_, x.k[1])       # [*a, *b] == a + b for lists
            if isinstance(out_, Opq) and out_.k and out_.k[0] == 'concat': return out_
        if len(r) > 1 and any(isinstance(x, Opq) and x.k and x.k[0] == '*' for x in r):
            # [a, *xs, b, *ys]  ==  [a] + xs + [b] + ys   (the unpacked operands list-valued terms)
            segs_, cur_ = [], []
            for x in r:
                if isinstance(x, Opq) and x.k and x.k[0] == '*':
                    if cur_: segs_.append(list(cur_)); cur_ = []
                    segs_.append(x.k[1])
                else: cur_.append(x)
            if cur_: segs_.append(list(cur_))
            if all(isinstance(g_, (list, Comp)) or (isinstance(g_, Opq) and g_.k and g_.k[0] in ('sorted', 'concat', 'list')) for g_ in segs_):
                out_ = segs_[0]
                for g_ in segs_[1:]: out_ = s._binop(ast.Add(), out_, g_)
                return out_
        return r

    def e_Set(s, e, env, mod, depth):
        if len(e.elts) == 1 and isinstance(e.elts[0], ast.Starred):
            return s.builtin('set', [s.ev(e.elts[0].value, env, mod, depth)], {}, mod, depth)          # {*xs} is set(xs)
        return Opq('set', *s.e_Tuple(e, env, mod, depth))

    def e_Dict(s, e, env, mod, depth):
        out = {}
        for k, v in zip(e.keys, e.values):
            if k is None:
                sub = s.ev(v, env, mod, depth)
                if isinstance(sub, dict): out.update(sub)
                else: out[Opq('**', sub)] = sub
            else:
                kk = s.ev(k, env, mod, depth)
                out[kk if isinstance(kk, (str, bool, int)) or kk is None else _HK(kk)] = s.ev(v, env, mod, depth)
        return out

    def e_JoinedStr(s, e, env, mod, depth):
        parts = []
        for v in e.values:
            if isinstance(v, ast.Constant): parts.append(str(v.value)); continue
            if isinstance(v, ast.FormattedValue):
                val = s.ev(v.value, env, mod, depth)
                spec_ = ''
                if v.format_spec is not None:
                    sp_ = s.e_JoinedStr(v.format_spec, env, mod, depth) if isinstance(v.format_spec, ast.JoinedStr) else None
                    spec_ = sp_ if isinstance(sp_, str) else Opq('dynspec', sp_)
                parts.append(s.to_str(val, spec_, v.conversion, mod, depth)); continue
            parts.append(Opq('?', 'fstring part'))
        return s.mkstr(parts)

    # ---- string normal form: a string is a literal or strcat(parts...) with literal runs merged; conditionals are lifted out
    def mkstr(s, parts, _budget=4):
        for i, p_ in enumerate(parts):
            if isinstance(p_, Cond) and _budget > 0:
                return s.mkcond(p_.g, s.mkstr(parts[:i] + [p_.a] + parts[i + 1:], _budget - 1), s.mkstr(parts[:i] + [p_.b] + parts[i + 1:], _budget - 1))
        out = []
        for p_ in parts:
            items = list(p_.k[1:]) if isinstance(p_, Opq) and p_.k and p_.k[0] == 'strcat' else [p_]
            for it in items:
                if isinstance(it, str) and it == '': continue
                if isinstance(it, str) and out and isinstance(out[-1], str): out[-1] += it
                else: out.append(it)
        if not out: return ''
        if len(out) == 1 and isinstance(out[0], str): return out[0]
        return Opq('strcat', *out)

    def to_str(s, val, spec_='', conv=-1, mod=None, depth=0):
        if isinstance(val, Cond): return s.mkcond(val.g, s.to_str(val.a, spec_, conv, mod, depth), s.to_str(val.b, spec_, conv, mod, depth))
        if isinstance(val, str) and spec_ == '' and conv in (-1, 115): return val
        if isinstance(val, Opq) and val.k and val.k[0] == 'strcat' and spec_ == '' and conv in (-1, 115): return val
        if isinstance(val, Rec) and spec_ == '' and conv in (-1, 115) and val.clsref and depth < s.depth_limit and val.cls in s.inline_str_classes:
            mem = s.prog.find_member(val.clsref[0], val.clsref[1], '__str__')
            if mem and isinstance(mem[1], ast.FunctionDef):
                return s.call_fn(mem[1], mem[0], [val], {}, {'__parent__': None}, depth + 1)
        return Opq('fmt', val, spec_, conv if conv != -1 else None)

    def e_Lambda(s, e, env, mod, depth):
        return Closure(e, env, mod, 'λ')

    def e_NamedExpr(s, e, env, mod, depth):
        v = s.ev(e.value, env, mod, depth); env[e.target.id] = v; return v

    def e_Slice(s, e, env, mod, depth):
        return Opq('slice', *[s.ev(x, env, mod, depth) if x is not None else None for x in (e.lower, e.upper, e.step)])

    def e_Starred(s, e, env, mod, depth):
        return Opq('*', s.ev(e.value, env, mod, depth))

    # ---- comprehensions
    _bcount = itertools.count()
    _objcount = itertools.count()

    def comp(s, e, env, mod, depth, kind):
        if len(e.generators) > 1 and kind == 'dict' and not e.generators[0].is_async:
            # {k: v for a in CONCRETE for b in g(a)}: the outer generator over a concrete short sequence is unrolled, the entries of each item merged in order
            g0 = e.generators[0]
            it0 = s._iterable(s.ev(g0.iter, {'__parent__': env}, mod, depth))
            if isinstance(it0, dict) and all(not isinstance(k_, Opq) for k_ in it0): it0 = [k_.v if isinstance(k_, _HK) else k_ for k_ in it0]
            if isinstance(it0, (list, tuple)) and len(it0) <= 24:
                out_, ok_ = {}, True
                inner = ast.copy_location(ast.DictComp(key=e.key, value=e.value, generators=e.generators[1:]), e)
                for item in it0:
                    env3 = {'__parent__': env}
                    s.assign(g0.target, item, env3, mod, depth)
                    fl = [s.truth(s.ev(c, env3, mod, depth)) for c in g0.ifs]
                    if any(f is False for f in fl): continue
                    if any(f is not True for f in fl): ok_ = False; break
                    sub = s.ev(inner, env3, mod, depth)
                    if isinstance(sub, dict): out_.update(sub)
                    else: ok_ = False; break
                if ok_: return out_
        if len(e.generators) > 1 and kind in ('list', 'gen', 'set') and not e.generators[0].is_async:
            # [f(c, w) for c in CONCRETE for w in g(c)]: the outer generator over a concrete short sequence is unrolled, the rest is the
            # comprehension of each item
            g0 = e.generators[0]
            it0 = s._iterable(s.ev(g0.iter, {'__parent__': env}, mod, depth))
            if isinstance(it0, (list, tuple)) and len(it0) <= 24:
                out, ok_ = [], True
                inner = ast.copy_location(ast.ListComp(elt=e.elt, generators=e.generators[1:]), e)
                for item in it0:
                    env3 = {'__parent__': env}
                    s.assign(g0.target, item, env3, mod, depth)
                    fl = [s.truth(s.ev(c, env3, mod, depth)) for c in g0.ifs]
                    if any(f is False for f in fl): continue
                    if any(f is not True for f in fl): ok_ = False; break
                    sub = s.ev(inner, env3, mod, depth)
                    if isinstance(sub, (list, tuple)): out += list(sub)
                    else: ok_ = False; break
                if ok_: return (LazyList(out) if kind == 'gen' else out) if kind in ('list', 'gen') else Opq('set', *out)
        env2 = {'__parent__': env}
        gens = []
        for g in e.generators:
            it = s._iterable(s.ev(g.iter, env2, mod, depth))
            if isinstance(it, dict) and all(not isinstance(k_, Opq) for k_ in it): it = [k_.v if isinstance(k_, _HK) else k_ for k_ in it]
            # concrete list/tuple of known length with a single generator: expand
            if len(e.generators) == 1 and isinstance(it, (list, tuple)) and len(it) <= (64 if kind == 'dict' else 24):
                out = []
                guarded = []          # (guard, element) per item when some filter is not decided: the items that MAY be present, in order
                for item in it:
                    env3 = {'__parent__': env}
                    s.assign(g.target, item, env3, mod, depth)
                    fl = [s.truth(s.ev(c, env3, mod, depth)) for c in g.ifs]
                    if any(f is False for f in fl): continue
                    if any(f is not True for f in fl):
                        if kind in ('list', 'gen') and len(it) <= 8:
                            gd_ = s.mkbool('and', [f for f in fl if f is not True])
                            if out is not None: guarded += [(True, x_) for x_ in out]; out = None
                            guarded.append((gd_, s.ev(e.elt, env3, mod, depth)))
                            continue
                        out = None; guarded = []; break
                    if out is None:
                        if guarded: guarded.append((True, s.ev(e.elt, env3, mod, depth))); continue
                        break
                    if kind == 'dict': out.append((s.ev(e.key, env3, mod, depth), s.ev(e.value, env3, mod, depth)))
                    else: out.append(s.ev(e.elt, env3, mod, depth))
                if out is None and guarded:
                    return Opq('guarded', *[(g_, v_) for g_, v_ in guarded])
                if out is not None:
                    if kind == 'dict':
                        if all(isinstance(k, (str, int, bool)) or k is None for k, _ in out): return {k: v for k, v in out}
                        if all(isinstance(k, (str, int, bool)) or k is None or (isinstance(k, Poly) and k.is_const()) or isinstance(k, Ref) for k, _ in out):
                            return {(k if not isinstance(k, (Poly, Ref)) else _HK(k)): v for k, v in out}          # (a table keyed by classes / functions)
                    else:
                        return (LazyList(out) if kind == 'gen' else out) if kind in ('list', 'gen') else Opq('set', *out)
            if len(e.generators) == 1 and kind in ('list', 'gen') and isinstance(it, Opq) and it.k and it.k[0] == 'concat' and len(it.k) <= 9:
                # [f(x) for x in a + b + c]  is  [f(x) for x in a] + [f(x) for x in b] + [f(x) for x in c]
                parts_ = []
                for p_ in it.k[1:]:
                    g1 = ast.comprehension(target=g.target, iter=_TermNode(p_), ifs=g.ifs, is_async=0)
                    parts_.append(s.ev(ast.copy_location(ast.ListComp(elt=e.elt, generators=[g1]), e), env, mod, depth))
                out_ = parts_[0]
                for p_ in parts_[1:]: out_ = s._binop(ast.Add(), out_, p_)
                return out_
            depth_id = len(gens)
            while depth_id >= 1 and isinstance(it, Cond) and not isinstance(it, BoolSel) and ((isinstance(it.b, (list, tuple)) and not it.b) or (isinstance(it.a, (list, tuple)) and not it.a)):
                # ... for y in (ys if c else []):  nothing is visited when c fails -- c filters the enclosing generator
                if isinstance(it.b, (list, tuple)) and not it.b: gens[-1] = (gens[-1][0], list(gens[-1][1]) + [it.g]); it = it.a
                else: gens[-1] = (gens[-1][0], list(gens[-1][1]) + [s.negate(it.g)]); it = it.b
            pos_ = _positions_of(it)
            if pos_ is not None and isinstance(g.target, ast.Name):
                # for i in np.flatnonzero([p(x) for x in xs]): the positions of xs whose element passes p, in order -- xs[i] is that element
                xs_, fl0_, pred_ = pos_
                s.assign(g.target, Poly.atom(('idx', depth_id, tkey(xs_))), env2, mod, depth)
                fs = [s.truth(s.ev(c, env2, mod, depth)) for c in g.ifs]
                gens.append((xs_, [_relevel(f_, 0, depth_id) for f_ in fl0_ + [pred_]] + [f for f in fs if f is not True]))
                continue
            bound = s.bind_iter(g.target, it, env2, mod, depth, depth_id)
            fs = [s.truth(s.ev(c, env2, mod, depth)) for c in g.ifs]
            fs = [f for f in fs if f is not True]
            if depth_id == 0:
                it_f = _fuse_iter(it)
                base_, fl_ = _fuse_iter2(it_f)
                gens.append((base_, fl_ + fs))
            else:
                gens.append((it, fs))
        if kind == 'dict':
            elt = (s.ev(e.key, env2, mod, depth), s.ev(e.value, env2, mod, depth))
        else:
            elt = s.ev(e.elt, env2, mod, depth)
        return Comp(elt, gens, kind)

    def bind_iter(s, target, it, env, mod, depth, level=0):
        """bind loop/comprehension targets to canonical element atoms of the iterable"""
        base = ('elem', level, tkey(it))
        elem = s.elem_of(it, level)
        s.assign(target, elem, env, mod, depth)
        return elem

    def elem_of(s, it, level=0):
        if isinstance(it, Opq) and it.k and it.k[0] == 'zip':
            return tuple(s.elem_of(x, level) for x in it.k[1:])
        if isinstance(it, Opq) and it.k and it.k[0] == 'enumerate':
            return (Poly.atom(('idx', level, tkey(it.k[1]))), s.elem_of(it.k[1], level))
        if isinstance(it, Opq) and len(it.k) == 2 and it.k[0] == 'repeat': return it.k[1]          # every item of repeat(x) is x
        pr = _product_args(it)
        if pr is not None:
            return tuple(s.elem_of(x, (level, i) if len(pr) > 1 else level) for i, x in enumerate(pr))
        if isinstance(it, Opq) and it.k and it.k[0] == 'items':
            return (Poly.atom(('keyof', level, tkey(it.k[1]))), Poly.atom(('valof', level, tkey(it.k[1]))))
        if isinstance(it, Comp) and it.kind in ('list', 'gen') and len(it.gens) == 1:
            # element of a map-comprehension = its element term (over the inner element atom): keep pairing (its filters travel with the generator)
            return _relevel(it.elt, 0, level) if True else None
        return Poly.atom(('β', level, tkey(it)))

    def e_ListComp(s, e, env, mod, depth): return s.comp(e, env, mod, depth, 'list')
    def e_GeneratorExp(s, e, env, mod, depth): return s.comp(e, env, mod, depth, 'gen')
    def e_SetComp(s, e, env, mod, depth): return s.comp(e, env, mod, depth, 'set')
    def e_DictComp(s, e, env, mod, depth): return s.comp(e, env, mod, depth, 'dict')

    # ---- attributes / subscripts
    def e_Attribute(s, e, env, mod, depth):
        v = s.ev(e.value, env, mod, depth)
        return s.getattr(v, e.attr, mod, depth)

    def _keyed_item_attr(s, v, attr, mod, depth):
        """{x.a: x for x in xs}[k].a is k (when the lookup succeeds at all): the attribute a table is keyed by, read from the item found under k.
        Also for self.<field>[k].a when the declared class of the field looks its items up in such a table"""
        at = v.as_atom()
        if not (isinstance(at, tuple) and len(at) == 3 and at[0] == '[]'): return None
        base_k, key_k = at[1], at[2]
        def keyed_by(ck):
            # ('comp', 'dict', ('tuple', (K, V)), gens) with V the element and K its attribute `attr`
            if not (isinstance(ck, tuple) and len(ck) == 4 and ck[:2] == ('comp', 'dict') and isinstance(ck[2], tuple) and ck[2][:1] == ('tuple',) and len(ck[2][1]) == 2): return False
            K_, V_ = ck[2][1]
            vat = term_from_key(V_); kat = term_from_key(K_)
            if not (isinstance(vat, Poly) and isinstance(kat, Poly)): return False
            va_, ka_ = vat.as_atom(), kat.as_atom()
            return isinstance(va_, tuple) and va_[:1] == ('β',) and ka_ == ('.', va_, attr)
        if keyed_by(base_k): return term_from_key(key_k)
        if isinstance(base_k, tuple):
            if base_k[:1] == ('poly',):
                b_ = term_from_key(base_k)
                ba_ = b_.as_atom() if isinstance(b_, Poly) else None
            else: ba_ = base_k
            if isinstance(ba_, tuple) and len(ba_) == 3 and ba_[0] == '.' and ba_[1] == 'self' and s.self_class is not None:
                cache = s.__dict__.setdefault('_keyed_fields', {})
                ck_ = (id(s.self_class[1]), ba_[2], attr)
                if ck_ not in cache:
                    cache[ck_] = False
                    mem = s.prog.find_member(s.self_class[0], s.self_class[1], ba_[2])
                    ann = getattr(mem[1], 'annotation', None) if mem else None
                    r = s.prog.resolve_expr(mem[0], ann) if isinstance(ann, (ast.Name, ast.Attribute)) else None
                    if r and r[0] == 'class':
                        gi = s.prog.find_member(r[1], r[2], '__getitem__')
                        if gi and isinstance(gi[1], ast.FunctionDef):
                            e2 = Evaluator(s.prog); e2.self_class = (r[1], r[2])
                            t2 = e2.call_fn(gi[1], gi[0], [Poly.atom('self'), Poly.atom('key')], {}, {'__parent__': None}, 1)
                            a2 = t2.as_atom() if isinstance(t2, Poly) else None
                            if isinstance(a2, tuple) and len(a2) == 3 and a2[0] == '[]' and a2[2] == tkey(Poly.atom('key')) and keyed_by(a2[1]): cache[ck_] = True
                if cache[ck_]: return term_from_key(key_k)
        return None

    def _iterable(s, v):
        """what a loop / comprehension over v visits: a NamedTuple record iterates its fields, a defensive copy iterates the original"""
        nt_ = s.namedtuple_items(v) if isinstance(v, Rec) else None
        if isinstance(v, Ref) and v.kind == 'class':
            em_ = s.enum_members(v.mod, v.node)
            if em_ is not None: return list(em_.values())          # iterating an Enum class visits its members in definition order
        return nt_ if nt_ is not None else _iter_view(v)

    def enum_members(s, m, cls):
        """{NAME: member record} of an enum.Enum class of the package, in definition order (None for other classes).  A member is a record of
        its class with fields name / value; int- and str-valued enums (IntEnum, StrEnum, (str, Enum)) also behave as their value"""
        cache = s.prog.__dict__.setdefault('_enum_cache', {})
        if id(cls) in cache: return cache[id(cls)][1]
        out = None
        bases = []
        for mm_, c_ in s.prog.mro(m, cls):
            for b in c_.bases:
                nm_ = ast.unparse(b).split('.')[-1]
                try:
                    r_ = s.prog.resolve_expr(mm_, b)          # `from enum import Enum as _Enum`: the imported name counts
                    if r_ is not None and r_[0] == 'ext' and r_[1].split('.')[0] == 'enum': nm_ = r_[1].split('.')[-1]
                except Exception: pass
                bases.append(nm_)
        if any(b in ('Enum', 'IntEnum', 'StrEnum', 'Flag', 'IntFlag') for b in bases):
            cache[id(cls)] = (cls, None)        # (guards against recursion through member values)
            out = {}
            mixin = 'int' if any(b in ('IntEnum', 'IntFlag', 'int') for b in bases) else ('str' if any(b in ('StrEnum', 'str') for b in bases) else None)
            auto_n = 0
            for n_ in cls.body:
                tg = None
                if isinstance(n_, ast.Assign) and len(n_.targets) == 1 and isinstance(n_.targets[0], ast.Name): tg, val = n_.targets[0].id, n_.value
                elif isinstance(n_, ast.AnnAssign) and isinstance(n_.target, ast.Name) and n_.value is not None: tg, val = n_.target.id, n_.value
                if tg is None or tg.startswith('_'): continue
                if isinstance(val, ast.Call) and ast.unparse(val.func).split('.')[-1] == 'auto' and not val.args:
                    auto_n += 1; v_ = Poly.const(auto_n)
                else:
                    try: v_ = s.ev(val, {'__parent__': None}, m, 1)
                    except Exception: v_ = Opq('?', 'enum value')
                    c_ = v_.real_const() if isinstance(v_, Poly) else None
                    if c_ is not None and c_.denominator == 1: auto_n = int(c_)
                out[tg] = Rec(cls.name, {'name': tg, 'value': v_, '_name_': tg, '_value_': v_, '_enum_mixin_': mixin}, (m, cls))
        cache[id(cls)] = (cls, out)
        return out

    @staticmethod
    def _enum_member(v):
        return isinstance(v, Rec) and '_name_' in v.f and '_value_' in v.f

    def unique_private_member(s, name):
        """(module, node) of the private member `name` when exactly one class of the package declares it (method, property or field), else None"""
        if not (name.startswith('_') and not name.startswith('__')): return None
        cache = s.prog.__dict__.setdefault('_unique_private', {})
        if name not in cache:
            hits = []
            for m_ in s.prog.modules.values():
                for c_ in ast.walk(m_.tree):
                    if not isinstance(c_, ast.ClassDef): continue
                    for n_ in c_.body:
                        if isinstance(n_, ast.FunctionDef) and n_.name == name: hits.append((m_, n_))
                        elif isinstance(n_, ast.AnnAssign) and isinstance(n_.target, ast.Name) and n_.target.id == name: hits.append((m_, n_))
                        elif isinstance(n_, ast.Assign) and any(isinstance(t_, ast.Name) and t_.id == name for t_ in n_.targets): hits.append((m_, n_))
                    # attributes set on self in methods count as declarations, too
                    for n_ in ast.walk(c_):
                        if isinstance(n_, ast.Attribute) and isinstance(n_.ctx, ast.Store) and n_.attr == name and not any(h_[1] is n_ for h_ in hits): hits.append((m_, n_))
            cache[name] = hits[0] if len(hits) == 1 else None
        return cache[name]

    def getattr(s, v, attr, mod, depth):
        if isinstance(v, Cond): return Cond(v.g, s.getattr(v.a, attr, mod, depth), s.getattr(v.b, attr, mod, depth))
        if isinstance(v, list) and attr in ('real', 'imag') and not any(isinstance(x, (list, tuple, dict)) for x in v):
            return [s.getattr(x, attr, mod, depth) for x in v]          # an array written out element by element
        if attr == '__name__' and isinstance(v, (Ref, Closure)) and getattr(v, 'name', None): return v.name
        if s.atom_methods and isinstance(v, Poly) and (v.as_atom(), attr) in s.atom_methods and depth < s.depth_limit:
            mm_, fn_ = s.atom_methods[(v.as_atom(), attr)]
            if 'property' in s.prog.decorators(fn_):          # a declared property of a typed atom is its body over the atom
                return s.call_fn(fn_, mm_, [v], {}, {'__parent__': None}, depth + 1)
        if isinstance(v, Poly) and depth < s.depth_limit:
            ka_ = s._keyed_item_attr(v, attr, mod, depth)
            if ka_ is not None: return ka_
        if isinstance(v, Poly) and attr.startswith('_') and v.as_atom() is not None and depth < s.depth_limit:
            um_ = s.unique_private_member(attr)
            if um_ is not None and isinstance(um_[1], ast.FunctionDef) and s.prog.is_property(um_[1]):
                return s.call_fn(um_[1], um_[0], [v], {}, {'__parent__': None}, depth + 1)          # a private property only one class declares
        if isinstance(v, Ref):
            if v.kind == 'module':
                r = s.prog.resolve_expr(v.mod, ast.Name(id=attr, ctx=ast.Load()))
                if r is None:
                    sub = f'{v.mod.name}.{attr}'
                    if sub in s.prog.modules: return Ref('module', s.prog.modules[sub], None, attr)
                    return Opq('?', f'unresolved {v.mod.short}.{attr}')
                if r[0] == 'var': return s.ev(r[2], {'__parent__': None}, r[1], depth)
                return s.ref_of(r)
            if v.kind == 'ext':
                root = v.name.split('.')[0]
                if root in ('numpy', 'np', 'math', 'cmath'):
                    if attr == 'pi': return Poly.atom('pi')
                    if attr == 'inf': return Poly.atom('inf')
                    if attr == 'nan': return Poly.atom('nan')
                    if attr == 'e': return Poly.atom('e')
                    if attr == 'linalg': return Ref('ext', None, None, 'numpy.linalg')
                    return Ref('npfun', None, None, SYN.get(attr, attr))
                if v.name == 'builtins': return Ref('builtin', None, None, attr)          # builtins.filter is filter
                return Ref('ext', None, None, v.name + '.' + attr)
            if v.kind == 'class':
                em_ = s.enum_members(v.mod, v.node)
                if em_ is not None and attr in em_: return em_[attr]
                if em_ is not None and attr == '__members__': return dict(em_)
                # class attribute (e.g. RectFunction.wavetype default, Enum member)
                mem = s.prog.find_member(v.mod, v.node, attr)
                if mem and isinstance(mem[1], (ast.AnnAssign, ast.Assign)) and mem[1].value is not None:
                    val_ = mem[1].value
                    if isinstance(val_, ast.Call) and ast.unparse(val_.func).split('.')[-1] == 'field':
                        # dataclasses.field(default=X): the class attribute is X
                        dk_ = {k.arg: k.value for k in val_.keywords}
                        if 'default' in dk_: return s.ev(dk_['default'], {'__parent__': None}, mem[0], depth)
                    return s.ev(val_, {'__parent__': None}, mem[0], depth)
                if mem and isinstance(mem[1], ast.FunctionDef):
                    decs_ = s.prog.decorators(mem[1])
                    if 'classmethod' in decs_: return Closure(mem[1], {'__parent__': None}, mem[0], attr, v, v.node)        # cls is bound to the class
                    return Closure(mem[1], {'__parent__': None}, mem[0], attr, None, v.node)
                return Poly.atom(('.', ('cls', v.name), attr))
        if isinstance(v, Rec):
            if attr in v.f: return v.f[attr]
            if v.clsref:
                mem = s.prog.find_member(v.clsref[0], v.clsref[1], attr)
                if mem and isinstance(mem[1], ast.FunctionDef):
                    if s.prog.is_property(mem[1]):
                        if depth >= s.depth_limit: return Opq('?', 'depth')
                        return s.call_fn(mem[1], mem[0], [v], {}, {'__parent__': None}, depth + 1)
                    decs_ = s.prog.decorators(mem[1])
                    if 'staticmethod' in decs_: return Closure(mem[1], {'__parent__': None}, mem[0], attr, None, mem[2])
                    if 'classmethod' in decs_: return Closure(mem[1], {'__parent__': None}, mem[0], attr, Ref('class', v.clsref[0], v.clsref[1], v.clsref[1].name), mem[2])
                    return Closure(mem[1], {'__parent__': None}, mem[0], attr, v, mem[2])
                if mem and isinstance(mem[1], (ast.Assign, ast.AnnAssign)) and mem[1].value is not None and depth < s.depth_limit:
                    # a class attribute read through the instance; an attribute that is a descriptor object answers through its __get__
                    cv_ = s.ev(mem[1].value, {'__parent__': None}, mem[0], 1)          # a class-level constant: evaluated on its own, not at the caller's depth
                    if isinstance(cv_, Ref) and cv_.kind == 'func':           # a plain function stored in the class body is a method of its instances
                        return Closure(cv_.node, {'__parent__': None}, cv_.mod, attr, v, v.clsref[1])
                    if isinstance(cv_, Closure) and cv_.self_val is None and isinstance(cv_.node, (ast.Lambda, ast.FunctionDef)):
                        return Closure(cv_.node, cv_.env, cv_.mod, attr, v, v.clsref[1])
                    if isinstance(cv_, Rec) and cv_.clsref:
                        g_ = s.prog.find_member(cv_.clsref[0], cv_.clsref[1], '__get__')
                        if g_ and isinstance(g_[1], ast.FunctionDef):
                            return s.call_fn(g_[1], g_[0], [cv_, v, Ref('class', v.clsref[0], v.clsref[1], v.clsref[1].name)], {}, {'__parent__': None}, depth + 1)
                    return cv_
            return Poly.atom(('.', tkey(v), attr))
        if isinstance(v, dict):
            if attr in ('keys', 'values', 'items', 'get', 'pop', 'update', 'copy', '__getitem__', '__contains__'): return Opq('dictmethod', attr, v)
        if isinstance(v, (list, tuple)) and attr in ('index', 'append', 'count', 'copy', '__getitem__', '__contains__'): return Opq('listmethod', attr, v)
        if isinstance(v, str): return Opq('strmethod', attr, v)
        if attr in ('real', 'imag') and isinstance(v, (Poly, int, F, bool)):
            return s.npcall(attr, [as_poly(v)], {})
        if attr == 'T': return Poly.atom(('T', atomname(v)))
        if isinstance(v, Closure): return Opq('attr', v, attr)
        # bound method or attribute of an atom: stays an atom path
        if isinstance(v, Poly) and v.as_atom() is not None:
            st = s.stores.get((v.as_atom(), attr))
            if st is not None: return st
            if s.__dict__.get('obj_classes') and v.as_atom() in s.obj_classes and depth < s.depth_limit:
                om_, oc_ = s.obj_classes[v.as_atom()]
                mem_ = s.prog.find_member(om_, oc_, attr)
                if mem_ and isinstance(mem_[1], ast.FunctionDef) and s.prog.is_property(mem_[1]):
                    return s.call_fn(mem_[1], mem_[0], [v], {}, {'__parent__': None}, depth + 1)
            if s.self_class is not None and v.as_atom() == s.self_atom and attr.startswith('_') and not attr.startswith('__') and depth < s.depth_limit:
                # private helper PROPERTY of the class under analysis: unfolded like its private methods
                mem_ = s.prog.find_member(s.self_class[0], s.self_class[1], attr)
                if mem_ and isinstance(mem_[1], ast.FunctionDef) and s.prog.is_property(mem_[1]):
                    return s.call_fn(mem_[1], mem_[0], [v], {}, {'__parent__': None}, depth + 1)
                if mem_ and isinstance(mem_[1], (ast.Assign, ast.AnnAssign)) and isinstance(mem_[1].value, ast.Call):
                    # a class attribute that is a descriptor object answers through its __get__(descriptor, instance, owner)
                    cv_ = s.ev(mem_[1].value, {'__parent__': None}, mem_[0], 1)
                    if isinstance(cv_, Rec) and cv_.clsref:
                        g_ = s.prog.find_member(cv_.clsref[0], cv_.clsref[1], '__get__')
                        if g_ and isinstance(g_[1], ast.FunctionDef):
                            return s.call_fn(g_[1], g_[0], [cv_, v, Ref('class', s.self_class[0], s.self_class[1], s.self_class[1].name)], {}, {'__parent__': None}, depth + 1)
        return Poly.atom(('.', atomname(v), attr))

    def e_Subscript(s, e, env, mod, depth):
        v = s.ev(e.value, env, mod, depth)
        sl_ = None
        if isinstance(e.slice, ast.Slice):
            sl_ = (s.ev(e.slice.lower, env, mod, depth) if e.slice.lower else None, s.ev(e.slice.upper, env, mod, depth) if e.slice.upper else None,
                   s.ev(e.slice.step, env, mod, depth) if e.slice.step else None)
        elif isinstance(e.slice, ast.Call) and isinstance(e.slice.func, ast.Name) and e.slice.func.id == 'slice' and 1 <= len(e.slice.args) <= 3 and not e.slice.keywords \
                and getattr(s.lookup('slice', env, mod), 'kind', None) == 'builtin':
            a_ = [s.ev(x, env, mod, depth) for x in e.slice.args]            # x[slice(lo, up, step)] is x[lo:up:step]
            sl_ = (None, a_[0], None) if len(a_) == 1 else (a_[0], a_[1], a_[2] if len(a_) == 3 else None)
        if sl_ is not None:
            lo, up, st = sl_
            for i_, part_ in enumerate((lo, up, st)):
                if isinstance(part_, Cond):       # x[::-1 if g else 1]: the slice of each alternative
                    alt = lambda q_: s.e_Subscript(ast.copy_location(ast.Subscript(value=_TermNode(v), slice=ast.Slice(
                        *[(_TermNode(q_) if j_ == i_ else (None if p_ is None else _TermNode(p_))) for j_, p_ in enumerate((lo, up, st))]), ctx=ast.Load()), e), env, mod, depth)
                    return Cond(part_.g, alt(part_.a), alt(part_.b))
            if isinstance(lo, Poly) and lo.is_zero(): lo = None           # x[0:n] is x[:n]
            if isinstance(st, Poly) and st.real_const() == 1: st = None     # x[a:b:1] is x[a:b]
            if isinstance(v, (list, tuple)) and all(x is None or (isinstance(x, Poly) and x.real_const() is not None) for x in (lo, up, st)):
                f = lambda x: None if x is None else int(x.real_const())
                return v[f(lo):f(up):f(st)]
            if lo is None and up is None and st is None: return v          # x[:] has the elements of x
            return Poly.atom(('slice', atomname(v), tkey(lo), tkey(up), tkey(st)))
        if isinstance(e.slice, ast.Tuple) and len(e.slice.elts) >= 2 and not isinstance(v, (dict,)):
            # x[i, :] is x[i]: trailing full slices select everything
            elts = list(e.slice.elts)
            while len(elts) > 1 and isinstance(elts[-1], ast.Slice) and elts[-1].lower is None and elts[-1].upper is None and elts[-1].step is None: elts.pop()
            if len(elts) == 1 and len(e.slice.elts) > 1 and not isinstance(elts[0], ast.Slice):
                return s.e_Subscript(ast.copy_location(ast.Subscript(value=_TermNode(v), slice=elts[0], ctx=ast.Load()), e), env, mod, depth)
        k = s.ev(e.slice, env, mod, depth)
        if isinstance(v, Rec) and v.clsref is not None and depth < s.depth_limit:
            gi = s.prog.find_member(v.clsref[0], v.clsref[1], '__getitem__') if isinstance(v.clsref, tuple) else None
            if gi and isinstance(gi[1], ast.FunctionDef):
                return s.call_fn(gi[1], gi[0], [v, k], {}, {'__parent__': None}, depth + 1)
        return s.getitem(v, k)

    def getitem(s, v, k):
        if isinstance(v, Cond): return Cond(v.g, s.getitem(v.a, k), s.getitem(v.b, k))
        if isinstance(v, Ref) and v.kind == 'npfun' and v.name == 'r_' and isinstance(k, (tuple, list)) and not any(isinstance(x_, (str, Opq)) and (isinstance(x_, str) or x_.k[:1] == ('slice',)) for x_ in k):
            return s.npcall('hstack', [list(k)], {})              # np.r_[a, b, ...] joins its operands along the first axis (vectors: end to end)
        if isinstance(v, Comp) and v.kind == 'dict' and len(v.gens) == 1 and isinstance(v.elt, tuple) and len(v.elt) == 2 and isinstance(k, Poly) \
                and isinstance(v.elt[0], Poly) and isinstance(v.elt[1], Poly) and isinstance(v.gens[0][0], Opq) and len(v.gens[0][0].k) == 2 and v.gens[0][0].k[0] == 'items':
            # {key: value for key, value in X.items() if ...}[k]  is  X[k]  (when the lookup succeeds at all)
            X_ = v.gens[0][0].k[1]
            if v.elt[0].as_atom() == ('keyof', 0, tkey(X_)) and v.elt[1].as_atom() == ('valof', 0, tkey(X_)): return s.getitem(X_, k)
        if isinstance(v, Poly) and s.self_class is not None:
            # self.<field>.<attr>[k]  is  self.<field>[k]  when the declared class of the field answers subscripts from that attribute
            at_ = v.as_atom()
            if isinstance(at_, tuple) and len(at_) == 3 and at_[0] == '.' and isinstance(at_[1], tuple) and len(at_[1]) == 3 and at_[1][0] == '.' and at_[1][1] == 'self' and isinstance(at_[2], str):
                cache = s.__dict__.setdefault('_subscript_attr', {})
                ck_ = (id(s.self_class[1]), at_[1][2])
                if ck_ not in cache:
                    cache[ck_] = None
                    try:
                        mem = s.prog.find_member(s.self_class[0], s.self_class[1], at_[1][2])
                        ann = getattr(mem[1], 'annotation', None) if mem else None
                        r = s.prog.resolve_expr(mem[0], ann) if isinstance(ann, (ast.Name, ast.Attribute)) else None
                        if r and r[0] == 'class':
                            gi = s.prog.find_member(r[1], r[2], '__getitem__')
                            if gi and isinstance(gi[1], ast.FunctionDef):
                                e2 = Evaluator(s.prog); e2.self_class = (r[1], r[2])
                                t2 = e2.call_fn(gi[1], gi[0], [Poly.atom('self'), Poly.atom('key')], {}, {'__parent__': None}, 1)
                                a2 = t2.as_atom() if isinstance(t2, Poly) else None
                                if isinstance(a2, tuple) and len(a2) == 3 and a2[0] == '[]' and isinstance(a2[1], tuple) and a2[1][:2] == ('.', 'self') and a2[2] == tkey(Poly.atom('key')):
                                    cache[ck_] = a2[1][2]
                    except Exception:
                        cache[ck_] = None
                if cache[ck_] is not None and cache[ck_] == at_[2]: return s.getitem(Poly.atom(at_[1]), k)
        if isinstance(v, Comp) and v.kind == 'dict' and len(v.gens) == 1 and isinstance(v.elt, tuple) and len(v.elt) == 2 and isinstance(k, Poly) and isinstance(v.elt[0], Poly):
            # {x: f(x) for x in xs if ...}[k]  is  f(k)  (when the lookup succeeds at all)
            beta_ = s.elem_of(v.gens[0][0], 0)
            if isinstance(beta_, Poly) and beta_.as_atom() is not None and same(v.elt[0], beta_) and k.as_atom() is not None:
                nk_ = subst_key(tkey(v.elt[1]), tkey(beta_), tkey(k), beta_.as_atom(), k.as_atom())
                nv_ = term_from_key(nk_)
                if nv_ is not None: return nv_
        if isinstance(v, Ref) and v.kind == 'class' and isinstance(k, str):
            em_ = s.enum_members(v.mod, v.node)
            if em_ is not None and k in em_: return em_[k]
        if isinstance(v, Opq) and len(v.k) == 2 and v.k[0] == 'globals' and isinstance(v.k[1], Ref) and isinstance(k, str):
            r_ = s.prog.resolve(v.k[1].mod, k)                # globals()['name'] is the module-level name
            if r_ is not None and r_[0] != 'unresolved': return s.lookup(k, {'__parent__': None}, v.k[1].mod)
        if isinstance(v, Rec) and isinstance(k, Poly) and k.is_const() and s.namedtuple_items(v) is not None: v = s.namedtuple_items(v)
        if isinstance(v, Opq) and v.k and v.k[0] in ('list', 'tuple') and len(v.k) == 2 and isinstance(v.k[1], Poly) and isinstance(k, Poly) and k.real_const() is not None:
            v = v.k[1]          # a copy of a sequence is indexed like the sequence
        if isinstance(k, Cond): return Cond(k.g, s.getitem(v, k.a), s.getitem(v, k.b))
        if isinstance(k, Poly) and not isinstance(v, (list, tuple, dict)):
            at_ = k.as_atom()
            if isinstance(at_, tuple) and len(at_) == 3 and at_[0] == 'idx' and at_[2] == tkey(v):
                return s.elem_of(v, at_[1])          # xs[i] at the position i that enumerates xs is the element itself
            if isinstance(at_, tuple) and len(at_) == 3 and at_[0] == 'idx' and isinstance(v, Opq) and len(v.k) == 2 and v.k[0] in ('list', 'tuple') and at_[2] == tkey(v.k[1]):
                return s.elem_of(v.k[1], at_[1])     # ... also through a plain copy of xs
        if _is_boolterm(k) and isinstance(v, (tuple, list, dict)):
            # t[flag] with a truth value as index / key: the entry at 1 (True) when it holds, the entry at 0 (False) otherwise
            return s.mkcond(k, s.getitem(v, True if isinstance(v, dict) and True in v else Poly.const(1)), s.getitem(v, False if isinstance(v, dict) and False in v else Poly.const(0)))
        if isinstance(v, dict):
            for kk, vv in v.items():
                if same(kk.v if isinstance(kk, _HK) else kk, k): return vv
            if not has_opaque(k) and all(isinstance(kk, (str, int, bool)) for kk in v) and isinstance(k, str):
                if s._try_depth > 0 or s.raise_lookup_errors: raise Raised('KeyError', k)
                return Opq('KeyError', k)
            if _const_keyed(v) and (isinstance(k, str) or (isinstance(k, Poly) and k.is_const())):
                # a constant key that none of the (all constant) keys equals
                if s._try_depth > 0 or s.raise_lookup_errors: raise Raised('KeyError', repr(k))
                return Opq('KeyError', k)
            return Opq('dispatch', v, k)
        if isinstance(v, (tuple, list)) and isinstance(k, Poly) and k.real_const() is not None:
            i = int(k.real_const())
            if -len(v) <= i < len(v): return v[i]
            return Opq('IndexError', i)
        if isinstance(v, Comp) and isinstance(k, Poly) and k.real_const() is not None:
            return Opq('item', v, int(k.real_const()))
        if isinstance(v, Comp) and v.kind == 'dict' and len(v.gens) == 1 and isinstance(v.elt, (tuple, list)) and len(v.elt) == 2 and isinstance(k, Poly):
            # {x: g(x) for x in it if f(x)}[k]  ==  g(k)  on the paths where the lookup does not raise
            beta = s.elem_of(v.gens[0][0], 0)
            if isinstance(beta, Poly) and same(v.elt[0], beta) and isinstance(v.elt[1], Poly):
                r = term_from_key(subst_key(tkey(v.elt[1]), tkey(beta), tkey(k), beta.as_atom(), k.as_atom()))
                if r is not None: return r
        kk = k if isinstance(k, str) else (int(k.real_const()) if isinstance(k, Poly) and k.real_const() is not None and k.real_const().denominator == 1 else tkey(k))
        if isinstance(v, Poly) and v.as_atom() is not None and isinstance(kk, (str, int)):
            st = s.stores.get((v.as_atom(), ('[]', kk)))
            if st is not None: return st
        return Poly.atom(('[]', atomname(v), kk))

    # ---- calls
    def e_Call(s, e, env, mod, depth):
        # evaluation order of the language: the callee (or the receiver of a method) first, then the arguments -- it matters when one of them
        # takes an entry out of a dictionary that the other one reads
        f = e.func
        if isinstance(f, ast.Attribute): recv = s.ev(f.value, env, mod, depth)
        else: fv = s.ev(f, env, mod, depth)
        args = []
        for a in e.args:
            if isinstance(a, ast.Starred):
                v = s.ev(a.value, env, mod, depth)
                nt_ = s.namedtuple_items(v)
                if nt_ is not None: v = nt_
                n_ = s.tuple_arity(v) if not isinstance(v, (tuple, list)) else None
                if isinstance(v, (tuple, list)): args += list(v)
                elif n_ is not None: args += [s.getitem(v, Poly.const(i_)) for i_ in range(n_)]
                else: args.append(Opq('*', v))
            else: args.append(s.ev(a, env, mod, depth))
        kw = {}
        for k in e.keywords:
            if k.arg is None:
                v = s.ev(k.value, env, mod, depth)
                if isinstance(v, dict) and all(isinstance(x, str) for x in v):
                    dup_ = [x for x in v if x in kw]
                    if dup_ and s._try_depth > 0: raise Raised('TypeError', f"got multiple values for keyword argument {dup_[0]!r}")
                    kw.update(v)
                else: kw['**'] = v
            else:
                if k.arg in kw and s._try_depth > 0: raise Raised('TypeError', f"got multiple values for keyword argument {k.arg!r}")
                kw[k.arg] = s.ev(k.value, env, mod, depth)
        if any(x_ is RAISE for x_ in args) or any(x_ is RAISE for x_ in kw.values()) or (isinstance(f, ast.Attribute) and recv is RAISE):
            return RAISE          # an argument that raises: the call itself is never made
        if isinstance(f, ast.Attribute):
            return s.call_method(recv, f.attr, args, kw, mod, depth, e)
        return s.apply(fv, args, kw, mod, depth, e)

    def namedtuple_items(s, v):
        """field values of a typing.NamedTuple record in declaration order (it unpacks, iterates and indexes like that tuple), else None"""
        if not (isinstance(v, Rec) and v.clsref and isinstance(v.clsref, tuple)): return None
        m_, c_ = v.clsref[0], v.clsref[1]
        if not any(s.prog.base_name(mm_, b) == 'NamedTuple' for mm_, cc_ in s.prog.mro(m_, c_) for b in cc_.bases): return None
        names = [f_[0] for f_ in s.prog.dataclass_fields(m_, c_)]
        if not all(n_ in v.f for n_ in names): return None
        return tuple(v.f[n_] for n_ in names)

    def tuple_arity(s, v):
        """length of the tuple an uninterpreted call of a package function returns, when every return statement of that function is a tuple
        display of one and the same length"""
        at = v.as_atom() if isinstance(v, Poly) else None
        if not (isinstance(at, tuple) and len(at) == 4 and at[0] == 'call' and isinstance(at[1], tuple) and at[1][:1] == ('fn',)): return None
        cands = [f for f in s.prog.funcs.values() if f.parent is None and f.cls is None and getattr(f.node, 'name', None) == at[1][1] and (f.mod.short, at[1][1]) in s.opaque_fns]
        if len(cands) != 1: return None
        own = [n for n in ast.walk(cands[0].node) if isinstance(n, ast.Return)]
        inner = {id(r) for fn_ in ast.walk(cands[0].node) if isinstance(fn_, (ast.FunctionDef, ast.Lambda)) and fn_ is not cands[0].node for r in ast.walk(fn_) if isinstance(r, ast.Return)}
        rets = [r for r in own if id(r) not in inner]
        if not rets or not all(isinstance(r.value, ast.Tuple) and not any(isinstance(e_, ast.Starred) for e_ in r.value.elts) for r in rets): return None
        ns = {len(r.value.elts) for r in rets}
        return ns.pop() if len(ns) == 1 else None

    _OP_BIN = {'add': ast.Add, 'sub': ast.Sub, 'mul': ast.Mult, 'truediv': ast.Div, 'mod': ast.Mod, 'pow': ast.Pow, 'matmul': ast.MatMult, 'floordiv': ast.FloorDiv,
               'and_': ast.BitAnd, 'or_': ast.BitOr}
    _OP_CMP = {'eq': ast.Eq, 'ne': ast.NotEq, 'lt': ast.Lt, 'le': ast.LtE, 'gt': ast.Gt, 'ge': ast.GtE, 'is_': ast.Is, 'is_not': ast.IsNot}

    def stdlib(s, nm, args, kw, mod, depth):
        """the functional toolkit of the standard library (operator, itertools, functools) applied to terms: each call is the comprehension /
        operator / loop it abbreviates, so both spellings have one normal form.  NotImplemented when the function is not modelled."""
        root, _, leaf = nm.rpartition('.')
        if root == 'operator' or root == '_operator':
            if leaf in s._OP_BIN and len(args) == 2 and not kw: return s.binop(s._OP_BIN[leaf](), args[0], args[1])
            if leaf in s._OP_CMP and len(args) == 2 and not kw: return s.compare(s._OP_CMP[leaf](), args[0], args[1])
            if leaf == 'neg' and len(args) == 1: return s.binop(ast.Mult(), Poly.const(-1), args[0])
            if leaf == 'pos' and len(args) == 1: return args[0]
            if leaf == 'abs' and len(args) == 1: return s.npcall('abs', args, {})
            if leaf == 'not_' and len(args) == 1: return s.negate(s.truth(args[0]))
            if leaf == 'truth' and len(args) == 1: return s.truth(args[0])
            if leaf == 'contains' and len(args) == 2: return s.compare(ast.In(), args[1], args[0])
            if leaf == 'getitem' and len(args) == 2: return s.getitem(args[0], args[1])
            if leaf == 'itemgetter' and args and not kw: return Opq('opget', 'item', *args)
            if leaf == 'attrgetter' and args and not kw and all(isinstance(a_, str) for a_ in args): return Opq('opget', 'attr', *args)
            if leaf == 'methodcaller' and args and isinstance(args[0], str): return Opq('opget', 'method', args[0], tuple(args[1:]), kw)
            return NotImplemented
        if nm == 'itertools.chain.from_iterable' and len(args) == 1 and not kw:
            it_ = _iter_view(args[0])
            if isinstance(it_, (list, tuple)) and all(isinstance(x_, (list, tuple)) for x_ in it_): return [y_ for x_ in it_ for y_ in x_]
            if isinstance(it_, (list, tuple)) and it_ and all(isinstance(a_, (list, Comp)) or (isinstance(a_, Opq) and a_.k and a_.k[0] in ('sorted', 'list', 'concat')) for a_ in it_):
                out_ = it_[0]
                for a_ in it_[1:]: out_ = s._binop(ast.Add(), out_, a_)
                return out_
            return NotImplemented
        if root == 'itertools':
            if leaf == 'starmap' and len(args) == 2 and not kw:
                f_, it_ = args[0], _iter_view(args[1])
                if isinstance(it_, (list, tuple)) and len(it_) <= 24 and all(isinstance(x_, (list, tuple)) for x_ in it_):
                    return [s.apply(f_, list(x_), {}, mod, depth) for x_ in it_]
                el_ = s.elem_of(it_, 0)
                if isinstance(el_, (list, tuple)):
                    return Comp(s.apply(f_, list(el_), {}, mod, depth), [(_fuse_iter(it_), [])], 'list')
                return NotImplemented
            if leaf == 'chain' and args and not kw:
                if all(isinstance(a_, (list, tuple)) for a_ in args): return [x_ for a_ in args for x_ in a_]
                out_ = args[0]
                for a_ in args[1:]: out_ = s.binop(ast.Add(), out_ if not isinstance(out_, tuple) else list(out_), a_ if not isinstance(a_, tuple) else list(a_))
                return out_
            if leaf == 'filterfalse' and len(args) == 2 and not kw:
                neg_ = Closure(ast.parse('lambda __x: not __p(__x)', mode='eval').body, {'__parent__': None, '__p': args[0]}, mod, 'λ')
                return s.builtin('filter', [neg_, args[1]], {}, mod, depth)
            if leaf == 'compress' and len(args) == 2 and not kw:
                data_, sel_ = args
                if isinstance(data_, Opq) and data_.k and data_.k[0] == 'count' and len(data_.k) == 1:
                    return Opq('list', s.npcall('flatnonzero', [sel_], {}))         # the positions at which the selector holds
                if isinstance(data_, (list, tuple)) and isinstance(sel_, (list, tuple)) and len(data_) == len(sel_):
                    keep_ = [s.truth(x_) for x_ in sel_]
                    if all(k_ in (True, False) for k_ in keep_): return [d_ for d_, k_ in zip(data_, keep_) if k_]
                it_ = Opq('zip', data_, sel_); el_ = s.elem_of(it_, 0)
                if isinstance(el_, tuple) and len(el_) == 2:
                    b_, f_ = _fuse_iter2(_fuse_iter(it_))
                    return Comp(el_[0], [(b_, f_ + [s.truth(el_[1])])], 'list')
                return NotImplemented
            if leaf == 'count' and not args and not kw: return Opq('count')
            if leaf == 'combinations' and len(args) == 2 and not kw and isinstance(args[1], Poly) and args[1].real_const() == 2 and not isinstance(args[0], (list, tuple)):
                return Opq('combinations', _iter_view(args[0]))          # unordered pairs of items at different positions, each once
            if leaf == 'permutations' and len(args) == 2 and not kw and isinstance(args[1], Poly) and args[1].real_const() == 2 and not isinstance(args[0], (list, tuple)):
                return Opq('permutations', _iter_view(args[0]))          # ordered pairs of items at DIFFERENT positions
            if leaf == 'chain' and args and not kw and all(isinstance(a_, (list, Comp)) or (isinstance(a_, Opq) and a_.k and a_.k[0] in ('sorted', 'list', 'concat')) for a_ in args):
                out_ = args[0]
                for a_ in args[1:]: out_ = s._binop(ast.Add(), out_, a_)         # chaining list-valued terms visits the items of their concatenation
                return out_
            if leaf == 'repeat' and len(args) == 1 and not kw: return Opq('repeat', args[0])
            if leaf == 'repeat' and len(args) == 2 and isinstance(args[1], Poly) and args[1].real_const() is not None and args[1].real_const().denominator == 1:
                return [args[0]] * int(args[1].real_const())
            return NotImplemented
        if root == 'functools' and leaf == 'reduce' and len(args) in (2, 3) and not kw:
            f_, it_ = args[0], _iter_view(args[1])
            if isinstance(it_, (list, tuple)) and len(it_) <= 24:
                items = list(it_)
                if len(args) == 3: acc = args[2]
                elif items: acc, items = items[0], items[1:]
                else: return NotImplemented
                for x_ in items: acc = s.apply(f_, [acc, x_], {}, mod, depth)
                return acc
            if isinstance(f_, Ref) and (f_.name in ('operator.add', '_operator.add') or (f_.kind == 'npfun' and f_.name == 'add')):
                tot_ = s.builtin('sum', [args[1]], {}, mod, depth)
                return s.binop(ast.Add(), args[2], tot_) if len(args) == 3 else tot_
            if len(args) == 3 and _is_callable_term(f_):
                # a fold over a symbolic sequence is the loop `acc = init; for x in it: acc = f(acc, x)`: recorded like a loop (step function,
                # sequence, initial value) so that rules about sequential updates read both spellings
                s.reductions.append({'fn': f_, 'iter': it_, 'init': args[2], 'mod': mod})
                return Opq('loop', it_, Opq('init', args[2]), Opq('step', s.apply(f_, [Poly.atom(('carried', 'acc')), s.elem_of(it_, 0)], {}, mod, depth)))
            return NotImplemented
        return NotImplemented

    def _lift_args(s, args, kw, rebuild, budget=3):
        """f(.., g ? a : b, ..) == g ? f(.., a, ..) : f(.., b, ..) for calls that are not interpreted further"""
        if budget <= 0: return None
        for i, a in enumerate(args):
            if isinstance(a, Cond):
                xs, ys = list(args), list(args); xs[i] = a.a; ys[i] = a.b
                return s.mkcond(a.g, rebuild(xs, kw, budget - 1), rebuild(ys, kw, budget - 1))
        for k, a in kw.items():
            if isinstance(a, Cond):
                kx, ky = dict(kw), dict(kw); kx[k] = a.a; ky[k] = a.b
                return s.mkcond(a.g, rebuild(list(args), kx, budget - 1), rebuild(list(args), ky, budget - 1))
        return None

    def call_method(s, recv, attr, args, kw, mod, depth, node=None, _budget=3):
        if any(isinstance(a, Cond) for a in list(args) + list(kw.values())) and isinstance(recv, Poly) and _budget > 0:
            r = s._lift_args(list(args), kw, lambda xs, ks, b: s.call_method(recv, attr, xs, ks, mod, depth, node, b), _budget)
            if r is not None: return r
        if isinstance(recv, Cond):
            return Cond(recv.g, s.call_method(recv.a, attr, args, kw, mod, depth, node), s.call_method(recv.b, attr, args, kw, mod, depth, node))
        if isinstance(recv, Ref) and recv.kind == 'builtin' and recv.name == 'dict' and attr == 'fromkeys' and args and isinstance(args[0], (list, tuple)):
            v_ = args[1] if len(args) > 1 else None
            return {(k_ if isinstance(k_, (str, int, bool)) or k_ is None else _HK(k_)): v_ for k_ in args[0]}
        if isinstance(recv, Ref) and recv.kind in ('module', 'ext', 'class'):
            return s.apply(s.getattr(recv, attr, mod, depth), args, kw, mod, depth, node)
        if isinstance(recv, Ref) and recv.kind == 'npfun' and attr == 'reduce' and len(args) == 1 and recv.name in ('add', 'multiply'):
            if recv.name == 'add': return s.npcall('sum', args, {k_: v_ for k_, v_ in kw.items()})         # np.add.reduce(x) is np.sum(x)
        if isinstance(recv, Opq) and len(recv.k) == 2 and recv.k[0] == 'globals' and isinstance(recv.k[1], Ref) and attr in ('items', 'keys', 'values', 'get') and not kw:
            # the module namespace as a dictionary: imported names, then the top-level definitions (in order of appearance)
            gm_ = recv.k[1].mod
            names_ = list(dict.fromkeys(list(gm_.imports) + list(gm_.defs)))
            if attr == 'get' and args and isinstance(args[0], str):
                return s.lookup(args[0], {'__parent__': None}, gm_) if args[0] in names_ else (args[1] if len(args) > 1 else None)
            if not args:
                vals_ = {}
                for n_ in names_:
                    try: vals_[n_] = s.lookup(n_, {'__parent__': None}, gm_)
                    except Exception: vals_[n_] = Opq('?', 'global ' + n_)
                if attr == 'keys': return list(vals_)
                if attr == 'values': return list(vals_.values())
                return [(n_, v_) for n_, v_ in vals_.items()]
        if attr == '__getitem__' and len(args) == 1 and not kw: return s.getitem(recv, args[0])                   # the method spelling of x[k]
        if attr == '__contains__' and len(args) == 1 and not kw: return s.compare(ast.In(), args[0], recv)
        if attr == 'conjugate' and not args: return s.npcall('conj', [recv], {})
        if attr == 'diagonal' and not args and not kw and not isinstance(recv, (Rec, dict, list, tuple, str)): return s.npcall('diag', [recv], {})       # M.diagonal() is np.diag(M)
        if (s.self_class is not None and isinstance(recv, Poly) and recv.as_atom() == s.self_atom and ((attr.startswith('_') and not attr.startswith('__')) or attr in s.inline_self_methods)
                and depth < s.depth_limit):
            # private helper of the class under analysis: inline it (public queries of `self` stay atoms)
            mem = s.prog.find_member(s.self_class[0], s.self_class[1], attr)
            if mem and isinstance(mem[1], ast.FunctionDef) and s.prog.is_property(mem[1]):
                # a private property that yields a callable (a partial application, a closure): fetch it, then call it
                fv_ = s.call_fn(mem[1], mem[0], [recv], {}, {'__parent__': None}, depth + 1)
                if _is_callable_term(fv_) and not isinstance(fv_, Poly): return s.apply(fv_, list(args), kw, mod, depth, node)
            if mem and isinstance(mem[1], ast.FunctionDef) and not s.prog.is_property(mem[1]) and not any('abstractmethod' in d_ for d_ in s.prog.decorators(mem[1])):
                decs_ = s.prog.decorators(mem[1])
                first_ = [] if 'staticmethod' in decs_ else ([Ref('class', s.self_class[0], s.self_class[1], s.self_class[1].name)] if 'classmethod' in decs_ else [recv])
                return s.call_fn(mem[1], mem[0], first_ + list(args), kw, {'__parent__': None}, depth + 1)
        if s.atom_methods and isinstance(recv, Poly) and (recv.as_atom(), attr) in s.atom_methods and depth < s.depth_limit:
            mm_, fn_ = s.atom_methods[(recv.as_atom(), attr)]
            return s.call_fn(fn_, mm_, [recv] + list(args), kw, {'__parent__': None}, depth + 1)
        if isinstance(recv, Poly) and s.__dict__.get('obj_classes') and recv.as_atom() in s.obj_classes and depth < s.depth_limit:
            om_, oc_ = s.obj_classes[recv.as_atom()]
            mem_ = s.prog.find_member(om_, oc_, attr)
            if mem_ and isinstance(mem_[1], ast.FunctionDef) and not s.prog.is_property(mem_[1]):
                decs_ = s.prog.decorators(mem_[1])
                first_ = [] if 'staticmethod' in decs_ else ([Ref('class', om_, oc_, oc_.name)] if 'classmethod' in decs_ else [recv])
                return s.call_fn(mem_[1], mem_[0], first_ + list(args), kw, {'__parent__': None}, depth + 1)
        if isinstance(recv, Poly) and recv.as_atom() is not None and depth < s.depth_limit:
            um_ = s.unique_private_member(attr)
            if um_ is not None and isinstance(um_[1], ast.FunctionDef) and not s.prog.is_property(um_[1]) and not any(d_ in ('staticmethod', 'classmethod') or 'abstractmethod' in d_ for d_ in s.prog.decorators(um_[1])):
                # a private helper method whose name only ONE class of the package declares: the object is of that class
                return s.call_fn(um_[1], um_[0], [recv] + list(args), kw, {'__parent__': None}, depth + 1)
        if isinstance(recv, Rec):
            fv = s.getattr(recv, attr, mod, depth)
            if isinstance(fv, Closure): return s.apply(fv, args, kw, mod, depth, node)
            if attr in recv.f: return s.apply(recv.f[attr], args, kw, mod, depth, node)
        if isinstance(recv, dict):
            if attr == 'get' and args and 0 < len(recv) <= 4 and not kw and all(isinstance(k_, _HK) and isinstance(k_.v, Poly) and not k_.v.is_const() for k_ in recv) \
                    and isinstance(args[0], Poly):
                # a display with symbolic keys looked up with a symbolic key: the LAST entry whose key equals it (later entries replace equal keys)
                out_ = args[1] if len(args) > 1 else None
                for k_, v_ in recv.items():
                    out_ = s.mkcond(s.compare(ast.Eq(), args[0], k_.v), v_, out_)
                return out_
            if attr == 'get':
                # .get never raises: a decidable miss is the default, whatever the lookup-error policy of the evaluation
                saved_ = s.raise_lookup_errors; s.raise_lookup_errors = False
                try: r = s.getitem(recv, args[0])
                finally: s.raise_lookup_errors = saved_
                if isinstance(r, Opq) and r.k[0] == 'KeyError': return args[1] if len(args) > 1 else None
                if isinstance(r, Opq) and r.k[0] == 'dispatch':
                    # symbolic key: the entry when the key is present, the default otherwise
                    return s.mkcond(Opq('in', args[0], recv), r, args[1] if len(args) > 1 else None)
                return r
            if attr == 'pop' and args and isinstance(args[0], str) and all(isinstance(kk, (str, int, bool)) for kk in recv):
                if args[0] in recv: return recv.pop(args[0])
                if len(args) > 1: return args[1]
                if s._try_depth > 0 or s.raise_lookup_errors: raise Raised('KeyError', args[0])
                return Opq('KeyError', args[0])
            if attr == 'keys': return list(k.v if isinstance(k, _HK) else k for k in recv)
            if attr == 'values': return list(recv.values())
            if attr == 'items': return [(k.v if isinstance(k, _HK) else k, v) for k, v in recv.items()]
            if attr == 'copy': return dict(recv)
        if isinstance(recv, (list, tuple)):
            if attr == 'index' and len(args) == 1:
                for i, x in enumerate(recv):
                    if same(x, args[0]): return Poly.const(i)
            if attr == 'copy': return list(recv)
        if isinstance(recv, str) and attr in ('strip', 'lower', 'upper', 'lstrip', 'rstrip') and not has_opaque(recv) and not args:
            return getattr(recv, attr)()
        if isinstance(recv, str) and attr == 'join' and len(args) == 1 and isinstance(args[0], (list, tuple)):
            parts_ = []
            for i_, x_ in enumerate(args[0]):
                if i_ and recv: parts_.append(recv)
                parts_.append(x_ if isinstance(x_, (str, Cond)) or (isinstance(x_, Opq) and x_.k and x_.k[0] in ('strcat', 'fmt')) else s.to_str(x_, '', -1, mod, depth))
            return s.mkstr(parts_)
        if isinstance(recv, str) and attr == 'format' and not kw and recv.count('{}') == len(args) and '{' not in recv.replace('{}', ''):
            segs_ = recv.split('{}'); parts_ = []
            for i_, sg_ in enumerate(segs_):
                parts_.append(sg_)
                if i_ < len(args): parts_.append(s.to_str(args[i_], '', -1, mod, depth))
            return s.mkstr(parts_)
        if attr == '__str__' and not args and isinstance(recv, (Rec, str)): return s.to_str(recv, '', -1, mod, depth)
        if attr in ('keys', 'values', 'items') and not args:
            return Opq(attr, recv)
        if attr in ('copy',) and not args: return recv
        if attr == 'get' and 1 <= len(args) <= 2 and not kw and isinstance(recv, Poly) and recv.as_atom() is not None and (isinstance(args[0], str) or isinstance(args[0], Poly)):
            # d.get(k, default) on a mapping we know nothing about: d[k] when k is in d, the default otherwise
            return s.mkcond(s.compare(ast.In(), args[0], recv), s.getitem(recv, args[0]), args[1] if len(args) == 2 else None)
        if attr == 'get' and args:
            return Opq('get', recv, *args)
        # method of an unknown object: numeric-capable atom
        s.atom_calls.append((atomname(recv), attr, list(args), dict(kw), tuple(s._pc)))
        return Poly.atom(('call', ('.', atomname(recv), attr), tuple(tkey(a) for a in args), tuple(sorted((k, tkey(v)) for k, v in kw.items()))))

    def apply(s, fv, args, kw, mod, depth, node=None):
        if isinstance(fv, Cond):
            return Cond(fv.g, s.apply(fv.a, args, kw, mod, depth, node), s.apply(fv.b, args, kw, mod, depth, node))
        for i_, a_ in enumerate(args):
            if isinstance(a_, Cond) and all(isinstance(l_, (Ref, Closure)) for _, l_ in paths_of(a_)) and isinstance(fv, (Closure, Ref)) and not (isinstance(fv, Ref) and fv.kind in ('builtin', 'npfun', 'ext')):
                # f(A if c else B, ...) with a class / function chosen by a test: the call of each alternative
                alt = lambda x_: s.apply(fv, list(args[:i_]) + [x_] + list(args[i_ + 1:]), kw, mod, depth, node)
                return Cond(a_.g, alt(a_.a), alt(a_.b))
        at_ = fv.as_atom() if isinstance(fv, Poly) else None
        if isinstance(at_, tuple) and len(at_) == 3 and at_[0] == '.' and isinstance(at_[2], str) and (isinstance(at_[1], str) or isinstance(at_[1], tuple)):
            # a bound method taken as a value (f = obj.method; f(x)) is the method call obj.method(x)
            return s.call_method(Poly.atom(at_[1]), at_[2], list(args), kw, mod, depth, node)
        if isinstance(fv, Closure):
            if depth >= s.depth_limit: return Opq('?', 'depth')
            a2 = ([fv.self_val] if fv.self_val is not None else []) + list(args)
            s.calls.append((fv.mod.short, fv.name or getattr(fv.node, 'name', 'λ')))
            return s.call_fn(fv.node, fv.mod, a2, kw, fv.env, depth + 1)
        if isinstance(fv, Ref):
            if fv.kind == 'npfun': return s.npcall(fv.name, args, kw)
            if fv.kind == 'builtin':
                if fv.name == 'zip' and len(args) >= 2 and not kw and isinstance(args[0], LazyList) and all(x_ is args[0] for x_ in args[1:]):
                    n_ = len(args); it_ = args[0]                 # zip(it, it, ...): consecutive items of ONE iterator, in groups
                    return LazyList([tuple(it_[i_ * n_ + j_] for j_ in range(n_)) for i_ in range(len(it_) // n_)])
                if fv.name == 'next' and args and not kw and isinstance(args[0], LazyList) and args[0]: return args[0].pop(0)       # the iterator advances
                r_ = s.builtin(fv.name, args, kw, mod, depth)
                return LazyList(r_) if fv.name in _LAZY_BUILTINS and type(r_) is list else r_
            if fv.kind == 'func':
                if (fv.mod.short, fv.name) in s.opaque_fns:
                    args, kw = s.canonical_args(fv, args, kw, depth)
                    return Poly.atom(('call', ('fn', fv.name), tuple(tkey(a) for a in args), tuple(sorted((k, tkey(v)) for k, v in kw.items()))))
                if depth >= s.depth_limit: return Opq('?', 'depth')
                s.calls.append((fv.mod.short, fv.name))
                return s.call_fn(fv.node, fv.mod, args, kw, {'__parent__': None}, depth + 1)
            if fv.kind == 'class': return s.construct(fv, args, kw, depth)
            if fv.kind == 'ext':
                nm = fv.name
                r_ = s.stdlib(nm, list(args), dict(kw), mod, depth)
                if r_ is not NotImplemented: return LazyList(r_) if nm.startswith('itertools.') and type(r_) is list else r_
                if nm.endswith('functools.partial') or nm == 'functools.partial':
                    return Opq('partial', *args, *[Opq('kw', k, v) for k, v in sorted(kw.items())])
                if nm.split('.')[-1] in ('deepcopy', 'copy') and args: return args[0]
                if nm in ('itertools.chain.from_iterable',) and len(args) == 1 and isinstance(args[0], Comp) and args[0].kind in ('list', 'gen') and not kw:
                    # chain.from_iterable(xs(c) for c in C)  ==  [x for c in C for x in xs(c)]
                    c_ = args[0]; lvl_ = len(c_.gens)
                    inner_ = c_.elt; gens_ = [(g_, list(f_)) for g_, f_ in c_.gens]
                    while isinstance(inner_, Cond) and not isinstance(inner_, BoolSel) and ((isinstance(inner_.b, (list, tuple)) and not inner_.b) or (isinstance(inner_.a, (list, tuple)) and not inner_.a)):
                        # (xs(c) if t(c) else []): nothing is chained when t fails -- t filters the outer generator
                        if isinstance(inner_.b, (list, tuple)) and not inner_.b: gens_[-1][1].append(inner_.g); inner_ = inner_.a
                        else: gens_[-1][1].append(s.negate(inner_.g)); inner_ = inner_.b
                    return Comp(s.elem_of(inner_, lvl_), gens_ + [(inner_, [])], 'list')
                if nm in ('itertools.product', 'product') and args:
                    rp = kw.get('repeat')
                    n = int(rp.real_const()) if isinstance(rp, Poly) and rp.real_const() is not None else (1 if rp is None else None)
                    if n is not None and set(kw) <= {'repeat'}: return Opq('product', *(list(args) * n))
                return Poly.atom(('call', ('ext', nm), tuple(tkey(a) for a in args), tuple(sorted((k, tkey(v)) for k, v in kw.items()))))
        if isinstance(fv, Opq) and fv.k and fv.k[0] == 'partial':
            base = fv.k[1]; pre = [x for x in fv.k[2:] if not (isinstance(x, Opq) and x.k[0] == 'kw')]
            pkw = {x.k[1]: x.k[2] for x in fv.k[2:] if isinstance(x, Opq) and x.k[0] == 'kw'}
            pkw.update(kw)
            return s.apply(base, pre + list(args), pkw, mod, depth, node)
        if isinstance(fv, Opq) and fv.k and fv.k[0] in ('dictmethod', 'listmethod', 'strmethod') and len(fv.k) == 3:
            return s.call_method(fv.k[2], fv.k[1], list(args), kw, mod, depth, node)        # a bound method of a container taken as a value
        if isinstance(fv, Opq) and fv.k and fv.k[0] == 'opget' and len(args) == 1 and not kw:
            kind, x = fv.k[1], args[0]
            if kind == 'item':
                vals = [s.getitem(x, k_) for k_ in fv.k[2:]]
                return vals[0] if len(vals) == 1 else tuple(vals)
            if kind == 'attr':
                def walk(o, path):
                    for a_ in path.split('.'): o = s.getattr(o, a_, mod, depth)
                    return o
                vals = [walk(x, a_) for a_ in fv.k[2:]]
                return vals[0] if len(vals) == 1 else tuple(vals)
            if kind == 'method':
                return s.call_method(x, fv.k[2], list(fv.k[3]), dict(fv.k[4]), mod, depth, node)
        if isinstance(fv, Opq) and fv.k and fv.k[0] == 'dispatch':
            return Opq('dispatchcall', fv.k[1], fv.k[2], tuple(args), kw)
        if isinstance(fv, Rec) and fv.clsref and depth < s.depth_limit:
            cm_ = s.prog.find_member(fv.clsref[0], fv.clsref[1], '__call__')       # a callable object
            if cm_ and isinstance(cm_[1], ast.FunctionDef):
                return s.call_fn(cm_[1], cm_[0], [fv] + list(args), kw, {'__parent__': None}, depth + 1)
        if isinstance(fv, Poly) and fv.as_atom() is not None:
            at_ = fv.as_atom()
            if isinstance(at_, tuple) and len(at_) == 3 and at_[0] == '.': s.atom_calls.append((at_[1], at_[2], list(args), dict(kw), tuple(s._pc)))     # a bound method fetched first, called later
            return Poly.atom(('call', fv.as_atom(), tuple(tkey(a) for a in args), tuple(sorted((k, tkey(v)) for k, v in kw.items()))))
        return Opq('?', 'call', fv, *args)

    def canonical_args(s, fv, args, kw, depth):
        """one spelling for a call of a known function: every argument bound to its parameter and listed positionally, omitted trailing
        parameters filled with their evaluated defaults (f(a, w=1) == f(a, 1) == f(a) when 1 is the default)"""
        try:
            pos, defaults, vararg, kwarg, kwonly, kwdefaults = params_of(fv.node)
        except Exception:
            return args, kw
        if vararg or kwarg or kwonly or len(args) > len(pos) or any(k not in pos for k in kw): return args, kw
        bound = dict(zip(pos, args))
        for k, v in kw.items():
            if k in bound: return args, kw
            bound[k] = v
        dmap = dict(zip(pos[len(pos) - len(defaults):], defaults))
        out = []
        for p in pos:
            if p in bound: out.append(bound[p])
            elif p in dmap:
                try: out.append(s.ev(dmap[p], {'__parent__': None}, fv.mod, depth + 1))
                except Exception: return args, kw
            else: return args, kw
        return out, {}

    def construct(s, ref: Ref, args, kw, depth):
        if isinstance(ref, Ref) and ref.kind == 'class' and len(args) == 1 and not kw:
            em_ = s.enum_members(ref.mod, ref.node)
            if em_ is not None:
                if s._enum_member(args[0]): return args[0]
                hits = [mb for mb in em_.values() if same(mb.f['_value_'], args[0])]
                if hits: return hits[0]
                if isinstance(args[0], (str, bool, int, F)) or (isinstance(args[0], Poly) and args[0].is_const()):
                    if s._try_depth > 0: raise Raised('ValueError', 'not a valid enum value')
                    return RAISE
                out = Opq('?', 'enum lookup by value')
                for mb in reversed(list(em_.values())): out = s.mkcond(s.compare(ast.Eq(), args[0], mb.f['_value_']), mb, out)
                return out
        m, cls = ref.mod, ref.node
        if cls.name in getattr(s, 'opaque_classes', ()):
            # canonical spelling: positional arguments bound to the dataclass fields and passed by keyword
            if args and (s.prog.is_dataclass(cls) or any(s.prog.is_dataclass(c) for _, c in s.prog.mro(m, cls))):
                fl = [f[0] for f in s.prog.dataclass_fields(m, cls) if f[3]]
                if len(args) <= len(fl) and not any(k in fl[:len(args)] for k in kw):
                    kw = dict(kw, **dict(zip(fl, args))); args = []
            return Poly.atom(('call', ('cls', cls.name), tuple(tkey(a) for a in args), tuple(sorted((k, tkey(v)) for k, v in kw.items()))))
        init = s.prog.find_member(m, cls, '__init__')
        if s.prog.is_dataclass(cls) or any(s.prog.is_dataclass(c) for _, c in s.prog.mro(m, cls)):
            fields = s.prog.dataclass_fields(m, cls)
            d = {}
            for name, dv, fm, init_ in fields:
                if dv is not None: d[name] = s.ev(dv, {'__parent__': None}, fm, depth)
            for (name, _, _, _), a in zip([f for f in fields if f[3]], args): d[name] = a
            for k, v in kw.items():
                if k == '**': continue
                d[k] = v
            return Rec(cls.name, d, (m, cls))
        if init and isinstance(init[1], ast.FunctionDef) and depth < s.depth_limit:
            # run __init__ on a fresh atom so that attribute stores are merged path-sensitively, then collect them into a record
            tag = ('obj', cls.name, next(Evaluator._objcount))
            s.__dict__.setdefault('obj_classes', {})[tag] = (m, cls)          # methods called on the object while it is being initialised are its class's
            if s.call_fn(init[1], init[0], [Poly.atom(tag)] + list(args), kw, {'__parent__': None}, depth + 1) is RAISE: return RAISE
            fields = {k[1]: v for k, v in s.stores.items() if k[0] == tag and isinstance(k[1], str)}
            return Rec(cls.name, fields, (m, cls))
        return Rec(cls.name, dict(kw, **{f'#{i}': a for i, a in enumerate(args)}), (m, cls))

    def builtin(s, name, args, kw, mod, depth):
        if name in ('zip', 'enumerate', 'list', 'tuple', 'map', 'filter', 'sorted', 'reversed', 'sum', 'any', 'all', 'len', 'min', 'max', 'set', 'iter', 'next') \
                and any(isinstance(x_, Rec) and s.namedtuple_items(x_) is not None for x_ in args):
            args = [s.namedtuple_items(x_) if isinstance(x_, Rec) and s.namedtuple_items(x_) is not None else x_ for x_ in args]       # a NamedTuple is the tuple of its fields
        a = args[0] if args else None
        if name == 'globals' and not args and not kw: return Opq('globals', Ref('module', mod, None, mod.short))
        if name == 'frozenset': name = 'set'          # the same value as far as membership and equality go
        if name.endswith(('Error', 'Exception', 'Warning')) or name in ('StopIteration', 'KeyboardInterrupt', 'SystemExit'):
            return Opq('exc', name, *args)              # an exception object (never None, never false)
        if name == 'str' and len(args) == 1 and (isinstance(a, (Rec, str, Cond)) or (isinstance(a, Opq) and a.k and a.k[0] in ('strcat', 'fmt'))):
            return s.to_str(a, '', -1, mod, depth)
        if name in ('float', 'int') and len(args) == 1 and (isinstance(a, bool) or _is_boolterm(a)):
            return s.mkcond(s.truth(a), Poly.const(1), Poly.const(0))          # the number of a truth value
        if name in ('float', 'str', 'int') and len(args) == 1:
            if name == 'int':
                c = a.real_const() if isinstance(a, Poly) else None
                if c is not None and c.denominator == 1: return a
                return s.lift1(lambda x: Poly.atom(('int', tkey(x))), a)
            return a
        if name == 'bool' and len(args) == 1: return s.truth(a)
        if name == 'complex':
            if not args and kw: args = [kw.get('real', Poly.const(0)), kw.get('imag', Poly.const(0))]
            elif len(args) == 1 and 'imag' in kw: args = [args[0], kw['imag']]
            a = args[0] if args else None
            if not args: return Poly.const(0)
            if len(args) == 1: return a
            return s.binop(ast.Add(), args[0], s.binop(ast.Mult(), Poly.const(0, 1), args[1]))
        if name == 'abs': return s.npcall('abs', args, kw)
        if name == 'round' and len(args) >= 1: return s.npcall('round', args, kw)
        if name == 'len':
            while isinstance(a, Opq) and a.k and a.k[0] in ('list', 'tuple', 'keys', 'iter') and len(a.k) == 2 and not isinstance(a.k[1], Comp): a = a.k[1]     # a copy has the length of the original
            if isinstance(a, (list, tuple, dict, str)): return Poly.const(len(a))
            return Poly.atom(('len', tkey(a)))
        if name == 'getattr' and len(args) == 3 and isinstance(args[1], str) and isinstance(a, Ref) and a.kind == 'module':
            r_ = s.prog.resolve(a.mod, args[1])            # getattr(module, name, default): the module-level name if there is one
            if r_ is None or r_[0] == 'unresolved':
                return args[2] if f'{a.mod.name}.{args[1]}' not in s.prog.modules else Ref('module', s.prog.modules[f'{a.mod.name}.{args[1]}'], None, args[1])
            return s.getattr(a, args[1], mod, depth)
        if name == 'getattr' and len(args) >= 2 and isinstance(args[1], str):
            return s.getattr(a, args[1], mod, depth)
        if name == 'callable' and len(args) == 1 and not kw:
            if isinstance(a, Closure) or (isinstance(a, Ref) and a.kind in ('func', 'class', 'builtin', 'npfun')): return True
            if isinstance(a, Opq) and a.k and a.k[0] in ('partial', 'opget', 'dictmethod', 'listmethod', 'strmethod'): return True
            if a is None or isinstance(a, (str, bool, int, F, list, tuple, dict)) or (isinstance(a, Ref) and a.kind == 'module') or (isinstance(a, Poly) and a.is_const()): return False
            if isinstance(a, Rec) and isinstance(a.clsref, tuple): return bool(s.prog.find_member(a.clsref[0], a.clsref[1], '__call__'))
        if name in ('list', 'tuple') and len(args) == 1 and isinstance(a, Poly) and not a.is_const():
            # list(c * np.arange(n)): an arithmetic expression in ONE range vector is the comprehension of its element expression over that range
            rng_ = [at_ for at_ in a.atoms() if isinstance(at_, tuple) and at_[:1] == ('arange',)]
            if len(rng_) == 1 and all(sum(e_ for at_, e_ in k_ if at_ == rng_[0]) == 1 for k_ in a.t):
                src_ = Poly.atom(rng_[0]); beta_ = s.elem_of(src_, 0)
                return Comp(a.subst(lambda at_: beta_ if at_ == rng_[0] else None), [(src_, [])], 'list')
        if name in ('list', 'tuple') and len(args) == 1 and isinstance(a, Rec) and s.namedtuple_items(a) is not None:
            a = s.namedtuple_items(a); args = [a]
        if name in ('list', 'tuple') and len(args) == 1:
            if isinstance(a, (list, tuple)): return list(a) if name == 'list' else tuple(a)
            if isinstance(a, dict): return [k.v if isinstance(k, _HK) else k for k in a]
            if isinstance(a, Comp) and a.kind == 'set': return Opq('list', a)
            if isinstance(a, Comp): return Comp(a.elt, a.gens, 'list')
            if isinstance(a, Opq) and a.k and a.k[0] == 'keys' and len(a.k) == 2 and name == 'list': return Opq('list', a.k[1])       # list(d.keys()) == list(d)
            at_ = a.as_atom() if isinstance(a, Poly) else None
            if isinstance(at_, tuple) and len(at_) == 4 and at_[0] == 'call' and isinstance(at_[1], tuple) and at_[1][0] == '.' and at_[1][2] == 'keys' and not at_[2] and not at_[3]:
                return Opq(name, Poly.atom(at_[1][1]))          # list(x.keys()) == list(x) for a mapping x
            return Opq('list', a)
        if name == 'list' and not args: return []
        if name == 'set' and not args: return Opq('set')
        if name == 'set' and len(args) == 1 and isinstance(a, Comp) and a.kind in ('list', 'gen', 'set'): return Comp(a.elt, a.gens, 'set')
        if name == 'sorted' and len(args) == 1 and not kw and isinstance(a, Opq) and a.k and a.k[0] == 'list' and len(a.k) == 2: return Opq('sorted', a.k[1])
        if name in ('list', 'tuple') and len(args) == 1 and isinstance(a, Comp) and a.kind == 'set': return Opq('list', a)
        if name == 'dict' and not args and kw: return dict(kw)
        if name == 'zip' and args and all(isinstance(x, (list, tuple)) for x in args):
            return [tuple(x[i] for x in args) for i in range(min(len(x) for x in args))]
        if name == 'dict' and len(args) == 1 and isinstance(a, (list, tuple)) and all(isinstance(x, (list, tuple)) and len(x) == 2 for x in a):
            out_ = {}
            for k_, v_ in a: out_[k_ if isinstance(k_, (str, bool, int)) or k_ is None else _HK(k_)] = v_
            out_.update(kw); return out_
        if name == 'dict' and not args and not kw: return {}
        if name == 'dict' and len(args) == 1 and isinstance(a, dict): return dict(a, **kw)
        if name == 'sum' and len(args) >= 1:
            if isinstance(a, (list, tuple)):
                r = as_poly(args[1]) if len(args) > 1 else Poly()
                for x in a: r = s.binop(ast.Add(), r, x)
                return r
            return Opq('Σ', a)
        if name in ('min', 'max') and len(args) >= 2 and not kw and all(isinstance(x, (Poly, int, F)) and as_poly(x).real_const() is not None for x in args):
            return Poly.const((min if name == 'min' else max)(as_poly(x).real_const() for x in args))
        if name in ('min', 'max') and len(args) == 1 and isinstance(a, dict) and a and _const_keyed(a) and not kw:
            a = [k_.v if isinstance(k_, _HK) else k_ for k_ in a]          # a mapping iterates its keys
        if name in ('min', 'max') and len(args) == 1 and isinstance(a, (list, tuple)) and all(isinstance(x, Poly) and x.real_const() is not None for x in a) and a:
            return Poly.const((min if name == 'min' else max)(x.real_const() for x in a))
        if name == 'isinstance' and len(args) == 2 and isinstance(a, Rec) and isinstance(a.clsref, tuple):
            # an object of a package class: decided along the class hierarchy (a base outside the package leaves it open)
            kinds = args[1] if isinstance(args[1], tuple) else (args[1],)
            if all(isinstance(k_, Ref) and k_.kind in ('builtin', 'class') for k_ in kinds):
                mro_ = s.prog.mro(a.clsref[0], a.clsref[1])
                ext_base = any(s.prog.resolve_expr(mm_, b_) is None or s.prog.resolve_expr(mm_, b_)[0] != 'class' for mm_, cc_ in mro_ for b_ in cc_.bases
                               if s.prog.base_name(mm_, b_) not in ('ABC', 'NamedTuple', 'object', 'Protocol', 'Generic', 'Enum', 'IntEnum', 'StrEnum'))
                if any(k_.kind == 'class' and any(cc_ is k_.node for _, cc_ in mro_) for k_ in kinds): return True
                if any(k_.kind == 'builtin' and k_.name == 'tuple' for k_ in kinds) and s.namedtuple_items(a) is not None: return True
                if not ext_base: return False
        if name == 'isinstance' and len(args) == 2:
            kinds = args[1] if isinstance(args[1], tuple) else (args[1],)
            names = [k.name for k in kinds if isinstance(k, Ref) and k.kind == 'builtin']
            if len(names) == len(kinds):
                actual = ('dict' if isinstance(a, dict) else 'list' if isinstance(a, list) else 'tuple' if isinstance(a, tuple) else
                          'str' if isinstance(a, str) else 'bool' if isinstance(a, bool) else None)
                if actual is not None: return actual in names or (actual == 'bool' and 'int' in names)
                at_ = a.as_atom() if isinstance(a, Poly) else None
                if isinstance(at_, str) and at_ in s.atom_types:
                    # an input declared to be a number of the given builtin type (complex / float / int)
                    t_ = s.atom_types[at_]
                    return t_ in names or (t_ == 'bool' and 'int' in names)
            return Opq('isinstance', *args)
        if name == 'isinstance': return Opq('isinstance', *args)
        if name == 'type' and len(args) == 1:
            if isinstance(a, Rec): return Ref('class', a.clsref[0], a.clsref[1], a.cls) if a.clsref else Opq('type', a)
            return Opq('type', a)
        if name == 'sorted' and len(args) == 1 and not kw and isinstance(a, (list, tuple)) and all(isinstance(x, str) for x in a):
            return sorted(a)
        if name == 'sorted' and len(args) == 1 and set(kw) == {'key'} and isinstance(a, (list, tuple)) and len(a) == 2 and _is_callable_term(kw['key']):
            # a stable sort of two items by a truth-valued key swaps them exactly when the first has the key and the second has not
            k0, k1 = (s.apply(kw['key'], [x_], {}, mod, depth) for x_ in a)
            if all(isinstance(k_, bool) or _is_boolterm(k_) for k_ in (k0, k1)):
                return s.mkcond(s.mkbool('and', [s.truth(k0), s.negate(s.truth(k1))]), [a[1], a[0]], [a[0], a[1]])
        if name in ('sorted', 'list', 'tuple', 'set') and len(args) == 1 and not kw and isinstance(a, dict) and all(isinstance(x, str) for x in a):
            ks_ = sorted(a) if name == 'sorted' else list(a)
            return ks_ if name != 'set' else Opq('set', *ks_)
        if name in ('any', 'all', 'sum', 'min', 'max', 'sorted', 'tuple') and args and isinstance(args[0], Comp) and args[0].kind == 'gen':
            args = [Comp(args[0].elt, args[0].gens, 'list')] + list(args[1:])          # a generator argument is consumed like the list
            a = args[0]
        if name in ('any', 'all') and len(args) == 1 and isinstance(args[0], Comp) and not isinstance(args[0].elt, (tuple, list)):
            args = [Comp(s.truth(args[0].elt), args[0].gens, 'list')]          # any / all test the truth of each element
            a = args[0]
        if name in ('min', 'max', 'sorted', 'set', 'len', 'any', 'all') and len(args) == 1 and not kw:
            a_ = args[0]
            while isinstance(a_, Opq) and a_.k and a_.k[0] in ('list', 'keys', 'tuple', 'iter') and len(a_.k) == 2 and not (name in ('sorted', 'set') and a_.k[0] != 'keys'):
                a_ = a_.k[1]        # min(d.keys()) == min(list(d)) == min(d)
            args = [a_]
        if name == 'any' and len(args) == 1 and not kw and isinstance(args[0], Comp) and len(args[0].gens) == 1 and not args[0].gens[0][1] \
                and isinstance(args[0].elt, Opq) and len(args[0].elt.k) == 3 and args[0].elt.k[0] == 'cmp' and args[0].elt.k[1] == 'Eq' and isinstance(args[0].elt.k[2], Poly):
            # any(x == v for x in xs)  is  v in xs
            xs_ = args[0].gens[0][0]; beta_ = s.elem_of(xs_, 0); d_ = args[0].elt.k[2]
            if isinstance(beta_, Poly) and not isinstance(xs_, (list, tuple, dict)):
                for sg_ in (1, -1):
                    cand = ((d_ * Poly.const(sg_)) - beta_).neg()
                    if repr(tkey(beta_)) not in repr(tkey(cand)): return s.compare(ast.In(), cand, xs_)
        if name in ('any', 'all') and len(args) == 1 and not kw and isinstance(args[0], (list, tuple)) and len(args[0]) <= 24:
            return s.mkbool('or' if name == 'any' else 'and', [s.truth(x_) for x_ in args[0]])          # written out over the concrete items
        if name == 'zip' and len(args) == 2 and not kw:
            # zip(L, itertools.count())  ==  ((x, i) for i, x in enumerate(L))
            def is_count(v_):
                if isinstance(v_, Opq) and v_.k == ('count',): return True
                at_ = v_.as_atom() if isinstance(v_, Poly) else None
                return isinstance(at_, tuple) and at_[:2] == ('call', ('ext', 'itertools.count')) and (not at_[2] or at_[2] == (('poly',),)) and not at_[3]
            for i_, j_ in ((0, 1), (1, 0)):
                if is_count(args[j_]) and not is_count(args[i_]):
                    en_ = Opq('enumerate', _iter_view(args[i_]))
                    idx_, el_ = s.elem_of(en_, 0)
                    return Comp((el_, idx_) if i_ == 0 else (idx_, el_), [(en_, [])], 'list')
        if name == 'dict' and len(args) == 1 and not kw and isinstance(a, Poly) and a.as_atom() is not None:
            return a          # a plain copy of a mapping reads like the mapping
        if name == 'dict' and len(args) == 1 and not kw and isinstance(a, Comp) and a.kind in ('list', 'gen') and isinstance(a.elt, (tuple, list)) and len(a.elt) == 2:
            return Comp(tuple(a.elt), a.gens, 'dict')
        if name == 'next' and len(args) == 1 and not kw and isinstance(a, Comp) and a.kind in ('gen', 'list') and len(a.gens) == 1 and len(a.gens[0][1]) == 1 \
                and isinstance(a.gens[0][0], Opq) and len(a.gens[0][0].k) == 2 and a.gens[0][0].k[0] == 'enumerate' and isinstance(a.elt, Poly):
            # next(i for i, x in enumerate(xs) if x == v)  is  list(xs).index(v): the first position whose item equals v
            xs_ = a.gens[0][0].k[1]; f_ = a.gens[0][1][0]
            if a.elt.as_atom() == ('idx', 0, tkey(xs_)) and isinstance(f_, Opq) and len(f_.k) == 3 and f_.k[0] == 'cmp' and f_.k[1] == 'Eq' and isinstance(f_.k[2], Poly):
                beta_ = s.elem_of(xs_, 0)
                if isinstance(beta_, Poly):
                    v_ = None
                    for sg_ in (1, -1):
                        cand = (f_.k[2] * Poly.const(sg_)) - beta_          # d = ±(beta - v)  ->  v = beta - (±d) ... solved for the side without beta
                        cand = cand.neg()
                        if repr(tkey(beta_)) not in repr(tkey(cand)): v_ = cand; break
                    if v_ is not None:
                        base_ = xs_ if isinstance(xs_, (list, tuple)) or (isinstance(xs_, Opq) and xs_.k and xs_.k[0] == 'list') else Opq('list', xs_)
                        return s.call_method(base_, 'index', [v_], {}, mod, depth)
        if name == 'next' and len(args) == 2 and not kw and isinstance(a, Opq) and a.k and a.k[0] == 'guarded':
            # the first item whose filter holds, else the default
            out_ = args[1]
            for g_, v_ in reversed(a.k[1:]): out_ = v_ if g_ is True else s.mkcond(g_, v_, out_)
            return out_
        if name == 'next' and 1 <= len(args) <= 2 and not kw and isinstance(a, (list, tuple)):
            # the first item of a concrete sequence (a generator over concrete items that was unrolled)
            if a: return a[0]
            if len(args) == 2: return args[1]
            if s._try_depth > 0: raise Raised('StopIteration', '')
        if name == 'range' and 1 <= len(args) <= 3 and not kw and all(isinstance(x, Poly) and x.real_const() is not None and x.real_const().denominator == 1 for x in args):
            vals_ = range(*[int(x.real_const()) for x in args])
            if len(vals_) <= 64: return [Poly.const(v_) for v_ in vals_]            # a concrete range is the list of its numbers
        if name == 'zip' and set(kw) <= {'strict'}: kw = {}                  # strict only adds a length check
        if name == 'zip' and args and not kw and any(isinstance(x, (list, tuple)) for x in args) and any(isinstance(x, Opq) and len(x.k) == 2 and x.k[0] == 'repeat' for x in args) \
                and all(isinstance(x, (list, tuple, str)) or (isinstance(x, Opq) and len(x.k) == 2 and x.k[0] == 'repeat') for x in args):
            n_ = min(len(x) for x in args if isinstance(x, (list, tuple, str)))
            args = [x if isinstance(x, (list, tuple, str)) else [x.k[1]] * n_ for x in args]          # repeat(x) supplies as many x as the others have items
        if name == 'zip' and args and not kw and all(isinstance(x, (list, tuple, str)) for x in args):
            return [tuple(t_) for t_ in zip(*args)]                         # concrete sequences (a string iterates its characters)
        if name == 'enumerate' and len(args) == 1 and isinstance(a, (list, tuple)) and (not kw or (set(kw) == {'start'} and isinstance(kw['start'], Poly) and kw['start'].is_zero())):
            return [(Poly.const(i_), x_) for i_, x_ in enumerate(a)]
        if name == 'enumerate' and kw.get('start') is not None and isinstance(kw['start'], Poly) and kw['start'].is_zero(): kw = {}
        if name == 'filter' and len(args) == 2 and not kw and _is_callable_term(args[0]):
            # filter(f, xs) == [x for x in xs if f(x)]
            if isinstance(args[1], (list, tuple)) and len(args[1]) <= 24:
                keep_ = [s.truth(s.apply(args[0], [x_], {}, mod, depth)) for x_ in args[1]]
                if all(k_ in (True, False) for k_ in keep_): return [x_ for x_, k_ in zip(args[1], keep_) if k_]
            it_ = _iter_view(args[1]); x_ = s.elem_of(it_, 0)
            base_, fl_ = _fuse_iter2(_fuse_iter(it_))
            g_ = s.truth(s.apply(args[0], [x_], {}, mod, depth))
            return Comp(x_, [(base_, fl_ + ([g_] if g_ is not True else []))], 'list')
        if name == 'map' and len(args) == 2 and not kw and _is_callable_term(args[0]):
            # map(f, xs) == [f(x) for x in xs]
            if isinstance(args[1], (list, tuple)) and len(args[1]) <= 24:
                return [s.apply(args[0], [x_], {}, mod, depth) for x_ in args[1]]      # concrete sequence: element by element
            it_ = _iter_view(args[1]); x_ = s.elem_of(it_, 0)
            b_, fl_ = _fuse_iter2(_fuse_iter(it_))           # the filters of a filtered source travel with the generator
            return Comp(s.apply(args[0], [x_], {}, mod, depth), [(b_, fl_)], 'list')
        if name in ('zip', 'enumerate', 'sorted', 'reversed'):
            # a generator handed to a consumer of its items is the list of its items
            args = [Comp(x_.elt, x_.gens, 'list') if isinstance(x_, Comp) and x_.kind == 'gen' else x_ for x_ in args]
        if name in ('zip', 'enumerate', 'set', 'sorted', 'any', 'all', 'min', 'max', 'range', 'map', 'reversed', 'iter', 'next', 'hasattr', 'getattr', 'print', 'filter', 'frozenset'):
            return Opq(name, *args, *[Opq('kw', k, v) for k, v in sorted(kw.items())])
        if name in ('ValueError', 'KeyError', 'TypeError', 'AttributeError', 'Exception', 'IndexError'): return Opq('exc', name)
        return Opq('?', 'builtin ' + name, *args)

    # ---- numeric functions
    def is_real(s, p: Poly) -> bool:
        for k, (a, b) in p.t.items():
            if b != 0: return False
            for at, _ in k:
                if not s._atom_real(at): return False
        return True

    def _atom_real(s, at):
        if at in s.real or at in ('pi', 'inf', 'e'): return True
        if isinstance(at, tuple) and at and at[0] in REAL_HEADS: return True
        if isinstance(at, tuple) and len(at) == 4 and at[0] == 'call' and isinstance(at[1], tuple) and at[1][:1] == ('.',) and at[1][2] in s.real_methods: return True
        if isinstance(at, tuple) and at and at[0] == 'exp' and isinstance(at[1], tuple) and at[1][:1] == ('poly',):
            return s.is_real(Poly(dict(at[1][1:])))
        if isinstance(at, tuple) and at and at[0] in ('cos', 'sin') and isinstance(at[1], tuple) and at[1][0] == 'poly':
            return s.is_real(Poly(dict(at[1][1:])))
        return False

    def conj(s, p: Poly) -> Poly:
        def f(at):
            if s._atom_real(at): return None
            if isinstance(at, tuple) and at and at[0] == 'exp' and isinstance(at[1], tuple) and at[1][:1] == ('poly',):
                return s.npcall('exp', [s.conj(Poly(dict(at[1][1:])))], {})
            if isinstance(at, tuple) and at and at[0] == 'conj': return Poly.atom(at[1]) if not (isinstance(at[1], tuple) and at[1] and at[1][0] == 'poly') else Poly(dict(at[1][1:]))
            if isinstance(at, tuple) and at and at[0] == 'inv' and isinstance(at[1], tuple) and at[1][0] == 'poly':
                return s.conj(Poly(dict(at[1][1:]))).inv()
            return Poly.atom(('conj', at))
        out = Poly()
        for k, (a, b) in p.t.items():
            m = Poly({(): (a, -b)})
            for at, e in k:
                r = f(at)
                base = r if r is not None else Poly.atom(at)
                m = m * (base if e == 1 else base.powr(e))
            out = out + m
        return out

    def _canon_sign(s, p: Poly):
        """(canonical representative of ±p, sign) so that f(-x) can be related to f(x)"""
        if p.is_zero(): return p, 1
        n = p.neg()
        return (p, 1) if repr(p.key()) <= repr(n.key()) else (n, -1)

    def npcall(s, name, args, kw):
        name = SYN.get(name, name)
        a = args[0] if args else None
        # the function spelling of an operator / attribute is the operator / attribute
        if name in _NP_BINOPS and len(args) == 2 and not kw: return s.binop(_NP_BINOPS[name](), args[0], args[1])
        if name == 'negative' and len(args) == 1 and not kw: return s.binop(ast.Mult(), Poly.const(-1), a)
        if name == 'transpose' and len(args) == 1 and not kw: return s.getattr(a, 'T', None, 0)
        if name in ('real', 'imag') and len(args) == 1 and not kw and not isinstance(a, (Poly, int, F, bool, Cond)): return s.getattr(a, name, None, 0)
        if name == 'arctan2' and len(args) == 2 and not kw and isinstance(args[0], Poly) and isinstance(args[1], Poly):
            # arctan2(imag(z), real(z)) is the argument of z
            ai, ar = args[0].as_atom(), args[1].as_atom()
            if isinstance(ai, tuple) and isinstance(ar, tuple) and len(ai) == 2 and len(ar) == 2 and ai[0] == 'imag' and ar[0] == 'real' and ai[1] == ar[1]:
                z_ = term_from_key(ai[1])
                if z_ is not None: return s.npcall('angle', [z_], {})
        if isinstance(a, Cond):
            return Cond(a.g, s.npcall(name, [a.a] + list(args[1:]), kw), s.npcall(name, [a.b] + list(args[1:]), kw))
        if name == 'isfinite': return True if s.assume_finite else Opq('isfinite', a)
        if name == 'atleast_2d' and len(args) == 1 and not kw and isinstance(a, Opq) and a.k and a.k[0] in ('np.zeros', 'np.empty', 'np.ndarray', 'np.ones'):
            sh_ = next((x_.k[2] for x_ in a.k[1:] if isinstance(x_, Opq) and x_.k[0] == 'kw' and x_.k[1] == 'shape'), a.k[1] if len(a.k) > 1 and not (isinstance(a.k[1], Opq) and a.k[1].k[0] == 'kw') else None)
            if isinstance(sh_, (tuple, list)) and len(sh_) == 2: return a          # already a matrix
        if name in ('logical_not', 'invert') and len(args) == 1 and not kw and isinstance(a, Comp) and a.kind in ('list', 'gen') and _is_boolterm(a.elt):
            return Comp(s.negate(a.elt), a.gens, 'list')          # element-wise negation of a list of truth values
        # block assembly normal form: hcat(parts...) / vcat(parts...), nested same-kind joins flattened
        if name in ('hstack', 'vstack', 'concatenate', 'row_stack') and isinstance(a, (Comp, Opq)) and (isinstance(a, Comp) or a.k[0] == 'concat'):
            # stacking a comprehension (or a concatenation of lists / comprehensions): one block of rows per generator
            segs = list(a.k[1:]) if isinstance(a, Opq) else [a]
            flat_ = []
            for sg_ in segs:
                if isinstance(sg_, (list, tuple)): flat_ += list(sg_)
                elif isinstance(sg_, Comp) and sg_.kind in ('list', 'gen'):
                    el_ = sg_.elt
                    at2_ = el_.as_atom() if isinstance(el_, Poly) else None
                    if name in ('vstack', 'concatenate', 'row_stack') and isinstance(at2_, tuple) and len(at2_) == 2 and at2_[0] == 'atleast_2d' and term_from_key(at2_[1]) is not None:
                        el_ = term_from_key(at2_[1])          # stacked as rows anyway
                    flat_.append(Opq('rows', Comp(el_, sg_.gens, 'list')))
                else: flat_ = None; break
            if flat_: a = flat_; args = [a] + list(args[1:])
        if name in ('hstack', 'vstack', 'concatenate', 'block', 'column_stack', 'row_stack') and isinstance(a, (list, tuple)) and a:
            axis = kw.get('axis', args[1] if len(args) > 1 else None)
            axc = axis.real_const() if isinstance(axis, Poly) else axis
            kind = None
            if name in ('hstack', 'column_stack'): kind = 'hcat'
            elif name in ('vstack', 'row_stack'): kind = 'vcat'
            elif name == 'concatenate': kind = 'vcat' if axc in (None, 0) else ('hcat' if axc in (1, -1) else None)
            elif name == 'block':
                if all(isinstance(r, (list, tuple)) for r in a):
                    rows = [s.npcall('hstack', [list(r)], {}) if len(r) > 1 else r[0] for r in a]
                    return rows[0] if len(rows) == 1 else s.npcall('vstack', [rows], {})
                kind = 'hcat'
            if kind is not None:
                parts = []
                for x in a:
                    if isinstance(x, Opq) and x.k and x.k[0] == kind: parts += list(x.k[1:])
                    elif _is_empty_array(x, kind): continue            # np.ndarray(shape=(0, n)): the empty seed of a stacking loop
                    else: parts.append(x)
                if not parts: return a[0]
                return parts[0] if len(parts) == 1 and not (isinstance(parts[0], Opq) and parts[0].k[0] == 'rows') else Opq(kind, *parts)
        if name == 'ones': return Poly.const(1)
        if name == 'full' and len(args) == 2 and isinstance(args[1], (Poly, int, F)) and set(kw) <= {'dtype'}: return as_poly(args[1])       # the constant array, like np.ones(shape)*v
        if name in ('zeros', 'empty', 'zeros_like', 'empty_like', 'ndarray') and args and not isinstance(a, (Cond,)):
            return Opq('np.' + name, *args, *[Opq('kw', k, v) for k, v in sorted(kw.items())])
        if name in ('vectorize', 'array', 'float') and len(args) == 1:
            if isinstance(a, Opq) and a.k and a.k[0] == 'Σ': return a
            return a
        if name == 'sum' and len(args) == 1:
            if isinstance(a, (list, tuple)): return s.builtin('sum', [a], {}, None, 0)
            return Opq('Σ', a)
        if isinstance(a, (int, F, bool)): a = as_poly(a)
        if isinstance(a, Poly):
            kwk = tuple(sorted((k, tkey(v)) for k, v in kw.items()))
            rest = tuple(tkey(x) for x in args[1:])
            if name in ('cos', 'sin'):
                if a.is_zero(): return Poly.const(1 if name == 'cos' else 0)
                c, sg = s._canon_sign(a)
                r = Poly.atom((name, c.key()))
                return r if (name == 'cos' or sg == 1) else r.neg()
            if name == 'radians': return a * Poly.atom('pi') * Poly.const(F(1, 180))
            if name == 'degrees': return a * Poly.atom('pi').inv() * Poly.const(180)
            if name == 'sqrt': return a.powr(F(1, 2))
            if name == 'exp':
                if a.is_zero(): return Poly.const(1)
                if a.t and all(c[0] == 0 for c in a.t.values()) and s.is_real(Poly({k: (c[1], F(0)) for k, c in a.t.items()})):
                    x = Poly({k: (c[1], F(0)) for k, c in a.t.items()})
                    # split off multiples of pi/2
                    pik = ((('pi', F(1)),))
                    pref = Poly.const(1)
                    if pik in x.t:
                        q = x.t[pik][0] * 2
                        if q.denominator == 1:
                            pref = [Poly.const(1), Poly.const(0, 1), Poly.const(-1), Poly.const(0, -1)][int(q) % 4]
                            x = x - Poly({pik: x.t[pik]})
                    if x.is_zero(): return pref
                    return pref * (s.npcall('cos', [x], {}) + Poly.const(0, 1) * s.npcall('sin', [x], {}))
                return Poly.atom(('exp', a.key()))
            if name == 'conj': return s.conj(a)
            if name in ('real', 'imag'):
                # linear over the reals:  re(c m) = re(c) re(m) - im(c) im(m) ;  im(c m) = re(c) im(m) + im(c) re(m)
                out = Poly()
                for k, (x, y) in a.t.items():
                    mono = Poly({k: (F(1), F(0))})
                    if s.is_real(mono): re_m, im_m = mono, Poly()
                    else: re_m, im_m = Poly.atom(('real', mono.key())), Poly.atom(('imag', mono.key()))
                    if name == 'real': out = out + re_m.scale(x) - im_m.scale(y)
                    else: out = out + im_m.scale(x) + re_m.scale(y)
                return out
            if name == 'abs':
                c = a.real_const()
                if c is not None: return Poly.const(abs(c))
                sg = s.sign(a)
                if sg <= {'>0', '=0'}: return a
                if sg <= {'<0', '=0'}: return a.neg()
                cc, _ = s._canon_sign(a)
                return Poly.atom(('abs', cc.key()))
            if name in ('floor', 'ceil', 'round'):
                c = a.real_const()
                if c is not None and c.denominator == 1 and not rest: return a
                return Poly.atom((name, a.key()) + rest + kwk)
            if name == 'mod' and len(args) == 2: return s._binop(ast.Mod(), a, args[1])
            return Poly.atom((name, a.key()) + rest + kwk)
        return Opq('np.' + name, *args, *[Opq('kw', k, v) for k, v in sorted(kw.items())])

    # ------------------------------------------------------------------ functions and statements
    def call_fn(s, fn, mod, args, kw, closure_env, depth):
        if depth <= 1 and s._try_depth == 0:
            try:
                return s._call_fn(fn, mod, args, kw, closure_env, depth)
            except Raised as ex:
                s.last_raise = ex.kind
                return RAISE
        return s._call_fn(fn, mod, args, kw, closure_env, depth)

    def _call_fn(s, fn, mod, args, kw, closure_env, depth):
        # a function that is already being unfolded twice further up is not unfolded a third time (recursive converters would otherwise
        # unfold exponentially): the recursive call stays an uninterpreted value
        if s._callstack.count(id(fn)) >= 4: return Opq('?', 'recursion:' + getattr(fn, 'name', 'λ'))
        s._callstack.append(id(fn))
        try:
            return s._call_fn2(fn, mod, args, kw, closure_env, depth)
        finally:
            s._callstack.pop()

    def _call_fn2(s, fn, mod, args, kw, closure_env, depth):
        if isinstance(fn, ast.Lambda):
            env = s.bind_params(fn, mod, args, kw, closure_env, depth)
            return s.ev(fn.body, env, mod, depth)
        env = s.bind_params(fn, mod, args, kw, closure_env, depth)
        gb_ = _generator_body(fn)
        if gb_ is not None:
            # a generator function: the list of what it yields, in order (consumed lazily by the caller, but its body has no effects we track)
            r_ = s.block(gb_, env, mod, depth)
            if isinstance(r_, Comp) and r_.kind == 'list': r_ = Comp(r_.elt, r_.gens, 'gen')
            return LazyList(r_) if type(r_) is list else r_
        return s.block(fn.body, env, mod, depth)

    def bind_params(s, fn, mod, args, kw, closure_env, depth):
        pos, defaults, vararg, kwarg, kwonly, kwdefaults = params_of(fn)
        env = {'__parent__': closure_env}
        for p, dv in zip(pos[len(pos) - len(defaults):], defaults): env[p] = s.ev(dv, {'__parent__': closure_env}, mod, depth)
        for p, dv in zip(kwonly, kwdefaults):
            if dv is not None: env[p] = s.ev(dv, {'__parent__': closure_env}, mod, depth)
        for p, v in zip(pos, args): env[p] = v
        if vararg: env[vararg] = tuple(args[len(pos):])
        extra = {}
        for k, v in kw.items():
            if k in pos or k in kwonly: env[k] = v
            else: extra[k] = v
        if kwarg: env[kwarg] = extra
        elif extra and s._try_depth > 0 and not any(k == '**' or not isinstance(k, str) for k in extra):
            raise Raised('TypeError', f"unexpected keyword argument {sorted(extra)[0]!r}")       # decidable: the signature is known
        if len(args) > len(pos) and not vararg and s._try_depth > 0: raise Raised('TypeError', 'too many positional arguments')
        for p in pos + kwonly:
            if p not in env:
                if s._try_depth > 0 and '**' not in kw: raise Raised('TypeError', f'missing argument {p!r}')
                env[p] = Opq('?', 'missing-arg ' + p)
        return env

    def _counter_while(s, st, env, mod, depth):
        """i = 0; while i < len(xs): BODY; i += 1     ==     for i, _ in enumerate(xs): BODY       (the counter is not written elsewhere in BODY, BODY has no
        continue / break; xs[i] inside BODY is then the element itself).  The rewritten statements, or None"""
        cached = getattr(st, '_cw_cache', None)
        if cached is not None and cached[0] == id(env): return cached[1]
        out = None
        try:
            t = st.test
            if isinstance(t, ast.Compare) and len(t.ops) == 1 and not st.orelse and st.body:
                l, r, op = t.left, t.comparators[0], t.ops[0]
                if isinstance(op, ast.Gt): l, r, op = r, l, ast.Lt()
                if isinstance(op, (ast.Lt, ast.NotEq)) and isinstance(l, ast.Name):
                    i = l.id
                    def is_inc(x_):
                        return (isinstance(x_, ast.AugAssign) and isinstance(x_.op, ast.Add) and isinstance(x_.target, ast.Name) and x_.target.id == i
                                and isinstance(x_.value, ast.Constant) and x_.value.value == 1) or \
                               (isinstance(x_, ast.Assign) and len(x_.targets) == 1 and isinstance(x_.targets[0], ast.Name) and x_.targets[0].id == i
                                and isinstance(x_.value, ast.BinOp) and isinstance(x_.value.op, ast.Add)
                                and {ast.unparse(x_.value.left), ast.unparse(x_.value.right)} == {i, '1'})
                    pos_ = [k_ for k_, x_ in enumerate(st.body) if is_inc(x_)]
                    inc = len(pos_) == 1
                    p_ = pos_[0] if inc else 0
                    before_, after_ = st.body[:p_], st.body[p_ + 1:]
                    body = before_ + after_
                    stores_i = any(isinstance(n, ast.Name) and n.id == i and isinstance(n.ctx, ast.Store) for b in body for n in ast.walk(b))
                    # the counter is read only BEFORE it is advanced; a `continue` may only follow the advance (it then means the same in a for loop)
                    used_after = any(isinstance(n, ast.Name) and n.id == i for b in after_ for n in ast.walk(b))
                    jumps = any(isinstance(n, ast.Break) for b in body for n in ast.walk(b)) or any(isinstance(n, ast.Continue) for b in before_ for n in ast.walk(b)) or used_after
                    cur = s.lookup(i, env, mod) if i in _chain_names(env) else None
                    if inc and not stores_i and not jumps and isinstance(cur, Poly) and cur.is_zero():
                        nv = s.ev(r, env, mod, depth)
                        at = nv.as_atom() if isinstance(nv, Poly) else None
                        xs = None
                        if isinstance(at, tuple) and len(at) == 2 and at[0] == 'len': xs = term_from_key(at[1])
                        elif isinstance(r, ast.Call) and isinstance(r.func, ast.Name) and r.func.id == 'len' and len(r.args) == 1 and not r.keywords:
                            cv_ = s.ev(r.args[0], env, mod, depth)          # the length of a concrete sequence: the loop visits its items
                            if isinstance(cv_, (list, tuple)) and len(cv_) <= 24: xs = list(cv_)
                        if xs is not None:
                            # the sequence must not be resized in the body
                            grows = any(isinstance(n, ast.Call) and isinstance(n.func, ast.Attribute) and n.func.attr in ('append', 'pop', 'remove', 'insert', 'extend', 'clear')
                                        and same(s.ev(n.func.value, env, mod, depth), xs) for b in body for n in ast.walk(b))
                            if xs is not None and not grows:
                                loop = ast.For(target=ast.Tuple(elts=[ast.Name(id=i, ctx=ast.Store()), ast.Name(id='__cw_item', ctx=ast.Store())], ctx=ast.Store()),
                                               iter=ast.Call(func=ast.Name(id='enumerate', ctx=ast.Load()), args=[_TermNode(xs)], keywords=[]),
                                               body=list(body) or [ast.Pass()], orelse=[])
                                after = ast.Assign(targets=[ast.Name(id=i, ctx=ast.Store())], value=_TermNode(nv))
                                out = [ast.fix_missing_locations(ast.copy_location(loop, st)), ast.fix_missing_locations(ast.copy_location(after, st))]
        except Exception:
            out = None
        st._cw_cache = (id(env), out)
        return out

    def exc_name_of(s, st, env, mod, depth):
        """name of the exception class a raise statement raises: the class its expression EVALUATES to (raise error(msg) with `error` a variable
        holding a class), else the name written"""
        name = _exc_name(st)
        e = st.exc
        if e is None: return name
        f_ = e.func if isinstance(e, ast.Call) else e
        if isinstance(f_, (ast.Name, ast.Attribute)):
            try: v = s.lookup(f_.id, env, mod) if isinstance(f_, ast.Name) else s.ev(f_, env, mod, depth)
            except Exception: v = None
            if isinstance(v, Ref) and v.kind in ('class', 'ext', 'builtin') and v.name: return v.name.split('.')[-1]
            # raise error  with `error` holding an exception INSTANCE built elsewhere
            if not isinstance(e, ast.Call):
                if isinstance(v, Rec) and v.cls: return v.cls
                if isinstance(v, Opq) and len(v.k) >= 2 and v.k[0] == 'exc' and isinstance(v.k[1], str): return v.k[1]
        return name

    def block(s, stmts, env, mod, depth):
        """returns the value returned by the block (Cond tree), RAISE, or FALL (no return)"""
        for i, st in enumerate(stmts):
            rest = stmts[i + 1:]
            if isinstance(st, ast.Return):
                return s.ev(st.value, env, mod, depth) if st.value is not None else None
            if isinstance(st, ast.Raise):
                s.last_raise = s.exc_name_of(st, env, mod, depth)
                s.raises.append({'guard': True, 'polarity': False, 'exc': s.last_raise, 'pc': tuple(s._pc)})          # a raise reached on this path
                if s._try_depth > 0 and st.exc is not None: raise Raised(s.last_raise)
                return RAISE
            if isinstance(st, ast.For) and not st.orelse and any(isinstance(n, ast.Return) for n in ast.walk(st)) \
                    and not any(isinstance(n, (ast.Break, ast.Continue)) for n in ast.walk(st)):
                # a loop over a concrete short sequence that may return from inside: written out item by item, followed by what comes after the loop
                it_ = s._iterable(s.ev(st.iter, env, mod, depth))
                if isinstance(it_, (list, tuple)) and len(it_) <= 8:
                    unrolled = []
                    for item_ in it_:
                        unrolled.append(ast.copy_location(ast.Assign(targets=[st.target], value=_TermNode(item_)), st))
                        unrolled += st.body
                    return s.block(unrolled + rest, env, mod, depth)
            if isinstance(st, ast.Continue): return FALL
            if isinstance(st, ast.Break):
                if s._build is not None: s._build['ok'] = False
                return BREAK
            if isinstance(st, (ast.Assign, ast.AnnAssign)):
                if isinstance(st, ast.AnnAssign) and st.value is None: continue
                val = s.ev(st.value, env, mod, depth)
                if val is RAISE: return RAISE
                for t in (st.targets if isinstance(st, ast.Assign) else [st.target]):
                    s.assign(t, val, env, mod, depth)
                    if isinstance(t, ast.Name): s._note_view(t.id, st.value, env, mod)
            elif isinstance(st, ast.AugAssign) and isinstance(st.target, ast.Subscript) and isinstance(st.op, (ast.Add, ast.Sub)) and s.array_store(st.target, s.ev(st.value, env, mod, depth) if isinstance(st.op, ast.Add) else s.negate_value(s.ev(st.value, env, mod, depth)), env, mod, depth, aug=True):
                pass
            elif isinstance(st, ast.AugAssign):
                cur = s.ev(_load(st.target), env, mod, depth)
                s.assign(st.target, s.binop(st.op, cur, s.ev(st.value, env, mod, depth)), env, mod, depth)
            elif isinstance(st, ast.If):
                g = s.truth(s.ev(st.test, env, mod, depth))
                if g is True: return s.block(st.body + rest, env, mod, depth)
                if g is False: return s.block(st.orelse + rest, env, mod, depth)
                if _always_raises(st.body):
                    s.learn(g, False, _exc_name(st.body[-1])); s.refine_env(env, g, False)
                    return s.block(st.orelse + rest, env, mod, depth)
                if st.orelse and _always_raises(st.orelse):
                    s.learn(g, True, _exc_name(st.orelse[-1])); s.refine_env(env, g, True)
                    return s.block(st.body + rest, env, mod, depth)
                if not _can_leave(st.body) and not _can_leave(st.orelse):
                    # neither branch returns or raises: evaluate both, merge what they assign into conditional VALUES, go on once
                    e1, e2 = _fork(env), _fork(env)
                    st0 = dict(s.stores)
                    s._undecided += 1; s._scoped += 1
                    snap = s._snap()
                    try:
                        s._pc.append((g, True)); s._assume_branch(g, True); s.block(st.body, e1, mod, depth); s._restore(snap)
                        s._pc[-1] = (g, False); st1 = s.stores; s.stores = dict(st0)
                        s._assume_branch(g, False); s.block(st.orelse, e2, mod, depth); s._pc.pop(); st2 = s.stores; s._restore(snap)
                    finally:
                        s._undecided -= 1; s._scoped -= 1
                    merged = {}
                    for k in set(st1) | set(st2):
                        a, b = st1.get(k, st0.get(k)), st2.get(k, st0.get(k))
                        if a is None or b is None: merged[k] = a if b is None else b
                        else: merged[k] = a if same(a, b) else s.mkcond(g, a, b)
                    s.stores = merged
                    _merge(env, g, e1, e2, s)
                    continue
                e1, e2 = _fork(env), _fork(env)
                # locals computed as `g ? a : b` with this very test are, inside each arm, the arm's value (x = d.get(k, MISSING); if x is MISSING: return ...)
                for env_, pol_ in ((e1, True), (e2, False)):          # (the forked top scope only: enclosing scopes are shared between the arms)
                    g_, p_ = g, pol_
                    if isinstance(g_, Opq) and g_.k and g_.k[0] == 'not': g_, p_ = g_.k[1], not p_
                    if not isinstance(g_, bool):
                        for nm_, v_ in list(env_.items()):
                            if nm_ != '__parent__' and isinstance(v_, Cond) and same(v_.g, g_): env_[nm_] = v_.a if p_ else v_.b
                st0 = dict(s.stores)
                s._undecided += 1; s._scoped += 1
                snap = s._snap(); after1 = after2 = None
                try:
                    s._pc.append((g, True))
                    s._assume_branch(g, True)
                    r1 = s.block(st.body + rest, e1, mod, depth)
                    after1 = s._snap(); s._restore(snap)
                    s._pc[-1] = (g, False)
                    st1 = s.stores; s.stores = dict(st0)
                    s._assume_branch(g, False)
                    r2 = s.block(st.orelse + rest, e2, mod, depth)
                    after2 = s._snap(); s._restore(snap)
                    s._pc.pop()
                    st2 = s.stores
                finally:
                    s._undecided -= 1; s._scoped -= 1
                # only one arm survives: what was established on it holds from here on
                if r1 is RAISE and r2 is not RAISE and after2 is not None and (not s._undecided or s._scoped): s._restore(after2)
                elif r2 is RAISE and r1 is not RAISE and after1 is not None and (not s._undecided or s._scoped): s._restore(after1)
                merged = {}
                for k in set(st1) | set(st2):
                    a, b = st1.get(k, st0.get(k)), st2.get(k, st0.get(k))
                    if r1 is RAISE: merged[k] = b
                    elif r2 is RAISE: merged[k] = a
                    elif a is None or b is None: merged[k] = a if b is None else b
                    else: merged[k] = a if same(a, b) else s.mkcond(g, a, b)
                s.stores = merged
                _merge(env, g, e1, e2, s)
                return s.mkcond(g, r1, r2)
            elif isinstance(st, ast.Match):
                chain = _match_as_ifs(st)
                if chain is not None: return s.block(chain + rest, env, mod, depth)
                return Opq('?', 'match statement with patterns that are not modelled')        # never skipped: what follows is not known
            elif isinstance(st, ast.Try) and _lookup_try_as_if(st) is not None:
                return s.block([_lookup_try_as_if(st)] + rest, env, mod, depth)
            elif isinstance(st, ast.Try):
                # the body runs with the analysed program's handlers armed: a decidable exception raised before the marker statement is
                # dispatched to the first matching handler; anything raised after the marker belongs to the code that FOLLOWS the try
                marker = ast.Pass(); marker._try_end = True
                done = [False]
                s._try_markers = getattr(s, '_try_markers', {}); s._try_markers[id(marker)] = done
                s._try_depth += 1; armed = True
                try:
                    return s.block(st.body + [marker] + st.orelse + st.finalbody + rest, env, mod, depth)
                except Raised as ex:
                    if done[0]: raise
                    if armed: s._try_depth -= 1; armed = False
                    for h in st.handlers:
                        names = [] if h.type is None else [ast.unparse(x).split('.')[-1] for x in (h.type.elts if isinstance(h.type, ast.Tuple) else [h.type])]
                        if h.type is not None and not isinstance(h.type, ast.Tuple) and isinstance(h.type, ast.Name):
                            # except NAME: where NAME is a module-level tuple of exception classes (or an alias of one class)
                            try: hv_ = s.ev(h.type, env, mod, depth)
                            except Exception: hv_ = None
                            hv_ = list(hv_) if isinstance(hv_, (tuple, list)) else [hv_]
                            extra_ = [x_.name.split('.')[-1] for x_ in hv_ if isinstance(x_, Ref) and x_.name]
                            extra_ += [x_.k[1] for x_ in hv_ if isinstance(x_, Opq) and len(x_.k) >= 2 and x_.k[0] == 'exc' and isinstance(x_.k[1], str)]
                            names = list(dict.fromkeys(names + extra_))
                        if h.type is None or ex.kind in names or any(pn in names for pn in EXC_PARENTS.get(ex.kind, ('Exception', 'BaseException'))):
                            if h.name: env[h.name] = Opq('exc', ex.kind)
                            return s.block(h.body + st.finalbody + rest, env, mod, depth)
                    raise
                finally:
                    if armed and not done[0]: s._try_depth -= 1
            elif isinstance(st, ast.With) and len(st.items) == 1 and isinstance(st.items[0].context_expr, ast.Call) \
                    and ast.unparse(st.items[0].context_expr.func).split('.')[-1] == 'suppress' and st.items[0].optional_vars is None:
                # with suppress(E1, E2): body   ==   try: body  except (E1, E2): pass
                ce_ = st.items[0].context_expr
                tr_ = ast.Try(body=list(st.body), handlers=[ast.ExceptHandler(type=ast.Tuple(elts=list(ce_.args), ctx=ast.Load()), name=None, body=[ast.Pass()])], orelse=[], finalbody=[])
                ast.copy_location(tr_, st); ast.fix_missing_locations(tr_)
                return s.block([tr_] + rest, env, mod, depth)
            elif isinstance(st, ast.With):
                for it in st.items:
                    if it.optional_vars is not None: s.assign(it.optional_vars, s.ev(it.context_expr, env, mod, depth), env, mod, depth)
                return s.block(st.body + rest, env, mod, depth)
            elif isinstance(st, ast.While) and s._counter_while(st, env, mod, depth) is not None:
                return s.block(s._counter_while(st, env, mod, depth) + rest, env, mod, depth)
            elif isinstance(st, (ast.For, ast.While)):
                lr = s.loop(st, env, mod, depth)
                if lr is RAISE: return RAISE
                if isinstance(lr, tuple) and lr and lr[0] == 'return-if':
                    # the loop returns lr[2] as soon as an element passes the test; otherwise what follows the loop happens
                    return s.block([ast.If(test=_TermNode(lr[1]), body=[ast.Return(value=_TermNode(lr[2]))], orelse=[])] + rest, env, mod, depth)
            elif isinstance(st, ast.ClassDef):
                # a class statement with decorators of the package (registries): the decorator is applied to the class
                r_ = s.prog.resolve(mod, st.name)
                cv_ = s.ref_of(r_) if r_ is not None and r_[0] == 'class' else None
                if cv_ is not None:
                    for d_ in reversed(st.decorator_list):
                        try: dv_ = s.ev(d_, env, mod, depth)
                        except Exception: dv_ = None
                        if isinstance(dv_, Closure) or (isinstance(dv_, Ref) and dv_.kind == 'func'):
                            try: s.apply(dv_, [cv_], {}, mod, depth)
                            except Raised: pass
            elif isinstance(st, ast.FunctionDef):
                fv_ = Closure(st, env, mod, st.name)
                for d_ in reversed(st.decorator_list):
                    # package-defined decorators are applied (registries); library decorators (dataclass, staticmethod, cache...) leave the function as it is
                    try: dv_ = s.ev(d_, env, mod, depth)
                    except Exception: dv_ = None
                    if isinstance(dv_, Closure) or (isinstance(dv_, Ref) and dv_.kind == 'func'):
                        r_ = s.apply(dv_, [fv_], {}, mod, depth)
                        if isinstance(r_, (Closure, Ref)): fv_ = r_
                env[st.name] = fv_
            elif isinstance(st, ast.Expr):
                if s.expr_stmt(st.value, env, mod, depth) is RAISE: return RAISE        # a helper that raises on every path (a validation routine)
            elif isinstance(st, ast.Delete):
                for tg in st.targets:
                    if isinstance(tg, ast.Subscript) and isinstance(tg.value, ast.Name):
                        cur_ = s.lookup(tg.value.id, env, mod)
                        k_ = s.ev(tg.slice, env, mod, depth) if not isinstance(tg.slice, ast.Slice) else None
                        if isinstance(cur_, dict) and isinstance(k_, str) and k_ in cur_: del cur_[k_]; continue
                        if isinstance(cur_, list) and isinstance(k_, Poly) and k_.real_const() is not None and -len(cur_) <= int(k_.real_const()) < len(cur_):
                            s.rebind(tg.value.id, [x for i_, x in enumerate(cur_) if i_ != int(k_.real_const()) % len(cur_)], env); continue
                        at_ = k_.as_atom() if isinstance(k_, Poly) else None
                        if isinstance(at_, tuple) and at_[:1] == ('call',) and isinstance(at_[1], tuple) and at_[1][:1] == ('.',) and at_[1][2] == 'index' and at_[1][1] == atomname(cur_) and len(at_[2]) == 1:
                            # del L[L.index(x)]  ==  L.remove(x)
                            x_ = term_from_key(at_[2][0])
                            s.mutations.append((tg.value.id, 'remove', [x_]))
                            s.rebind(tg.value.id, Opq('mutated', 'remove', cur_, x_ if x_ is not None else Opq('?', 'del')), env); continue
                        s.rebind(tg.value.id, Opq('mutated', 'del', cur_, k_), env)
            elif isinstance(st, ast.Pass) and getattr(st, '_try_end', False):
                mk = getattr(s, '_try_markers', {}).get(id(st))
                if mk is not None and not mk[0]:
                    mk[0] = True; s._try_depth -= 1        # the try body is over: its handlers are disarmed
            elif isinstance(st, (ast.Pass, ast.Import, ast.ImportFrom, ast.Global, ast.Nonlocal, ast.Assert, ast.ClassDef)):
                if isinstance(st, ast.ImportFrom):
                    # function-local import: bind through a temporary module view
                    tmp = Module(mod.name, mod.rel, mod.path, ast.Module(body=[st], type_ignores=[]), '', mod.is_pkg)
                    pkg_parts = mod.name.split('.') if mod.is_pkg else mod.name.split('.')[:-1]
                    s.prog._index_stmt(tmp, st, pkg_parts)
                    for nm, b in tmp.imports.items():
                        if b[0] == 'sym' and b[1] in s.prog.modules:
                            r = s.prog.resolve(s.prog.modules[b[1]], b[2])
                            if r is not None and r[0] != 'var': env[nm] = s.ref_of(r)
                        elif b[0] == 'mod' and b[1] in s.prog.modules:
                            env[nm] = Ref('module', s.prog.modules[b[1]], None, b[1])
            else:
                pass
        return FALL

    def expr_stmt(s, e, env, mod, depth):
        # mutating method call on a local: x.append(v) / x.remove(v) / x.sort() / x.update(d)
        if isinstance(e, ast.Call) and isinstance(e.func, ast.Attribute) and isinstance(e.func.value, ast.Name):
            nm, attr = e.func.value.id, e.func.attr
            cur = s.lookup(nm, env, mod)
            args = [s.ev(a, env, mod, depth) for a in e.args]
            if attr == 'update' and e.keywords and all(k.arg is not None for k in e.keywords):
                # d.update(k=v) is d.update({'k': v})
                kwd = {k.arg: s.ev(k.value, env, mod, depth) for k in e.keywords}
                args = ([{**args[0], **kwd}] if len(args) == 1 and isinstance(args[0], dict) else args + [kwd]) if args else [kwd]
                if len(args) == 2 and isinstance(cur, dict) and isinstance(args[0], dict): args = [{**args[0], **args[1]}]
            if attr == 'update' and len(args) == 1 and isinstance(args[0], (list, tuple)) and all(isinstance(x_, (list, tuple)) and len(x_) == 2 and isinstance(x_[0], (str, int)) for x_ in args[0]):
                args = [{x_[0]: x_[1] for x_ in args[0]}]          # d.update(pairs)
            if isinstance(cur, Opq) and cur.k and cur.k[0] == 'set' and not any(isinstance(x_, (Opq, Comp, Cond)) for x_ in cur.k[1:]) and len(args) == 1:
                # a set written out member by member: add / update with concrete members keeps it written out
                new_ = [args[0]] if attr == 'add' else (list(args[0]) if attr == 'update' and isinstance(args[0], (list, tuple)) else
                                                        (list(args[0].k[1:]) if attr == 'update' and isinstance(args[0], Opq) and args[0].k and args[0].k[0] == 'set' else
                                                         ([] if attr == 'update' and isinstance(args[0], dict) and not args[0] else None)))
                if new_ is not None and not any(isinstance(x_, (Comp, Cond)) or (isinstance(x_, Opq)) for x_ in new_):
                    have_ = {repr(tkey(x_)) for x_ in cur.k[1:]}; members = list(cur.k[1:])
                    for x_ in new_:
                        if repr(tkey(x_)) not in have_: have_.add(repr(tkey(x_))); members.append(x_)
                    s.rebind(nm, Opq('set', *members), env); return
            if attr == 'append' and isinstance(cur, list) and len(args) == 1:
                s.rebind(nm, cur + [args[0]], env); return
            if attr == 'update' and isinstance(cur, dict) and len(args) == 1 and isinstance(args[0], dict):
                s.rebind(nm, {**cur, **args[0]}, env); return
            if attr == 'sort' and not args and not e.keywords and (isinstance(cur, (list, Comp)) or (isinstance(cur, Opq) and cur.k and cur.k[0] in ('list', 'concat', 'sorted'))):
                # xs.sort() on a list value: xs is now sorted(xs)
                s.mutations.append((nm, attr, args))
                s.rebind(nm, s.builtin('sorted', [cur], {}, mod, depth), env); return
            if attr in ('append', 'remove', 'sort', 'extend', 'clear', 'insert', 'pop', 'update', 'add', 'discard', 'reverse', 'setdefault'):
                s.mutations.append((nm, attr, args))
                s.rebind(nm, Opq('mutated', attr, cur, *args), env); return
        if isinstance(e, ast.Call) and isinstance(e.func, ast.Name) and e.func.id == 'setattr' and len(e.args) == 3 and not e.keywords \
                and getattr(s.lookup('setattr', env, mod), 'kind', None) == 'builtin':
            nm = s.ev(e.args[1], env, mod, depth)
            if isinstance(nm, str):
                s.store_attr(s.ev(e.args[0], env, mod, depth), nm, s.ev(e.args[2], env, mod, depth)); return
        return s.ev(e, env, mod, depth)

    def store_attr(s, base, attr, val):
        if isinstance(base, Rec):
            # a record is shared by both arms of an undecided test: a store on one arm holds on that arm only
            pc_ = [(g_, pol_) for g_, pol_ in s._pc if not isinstance(g_, bool)]
            if pc_ and s._undecided > 0:
                guard = s.mkbool('and', [g_ if pol_ else s.negate(g_) for g_, pol_ in pc_])
                old = base.f.get(attr, Opq('?', f'attribute {attr} not set on this path'))
                val = s.mkcond(guard, val, old)
            base.f[attr] = val
        elif isinstance(base, Poly) and base.as_atom() is not None:
            s.stores[(base.as_atom(), attr)] = val

    def rebind(s, name, val, env):
        e = env
        while e is not None:
            if name in e: e[name] = val; return
            e = e.get('__parent__')
        env[name] = val

    def loop(s, st, env, mod, depth):
        """summarise a loop once: carried names become functions of themselves; accumulate idioms become Comp/Σ"""
        assigned = []
        for n in ast.walk(st):
            if isinstance(n, (ast.Assign, ast.AugAssign, ast.AnnAssign)):
                for t in (n.targets if isinstance(n, ast.Assign) else [n.target]):
                    for x in ast.walk(t):
                        if isinstance(x, ast.Name) and x.id not in assigned: assigned.append(x.id)
            if isinstance(n, ast.Expr) and isinstance(n.value, ast.Call) and isinstance(n.value.func, ast.Attribute) and isinstance(n.value.func.value, ast.Name):
                if n.value.func.attr in ('append', 'update', 'extend', 'add', 'remove', 'pop', 'sort') and n.value.func.value.id not in assigned:
                    assigned.append(n.value.func.value.id)
        if isinstance(st, ast.For):
            it = s._iterable(s.ev(st.iter, env, mod, depth))
            tnames = [x.id for x in ast.walk(st.target) if isinstance(x, ast.Name)]
            # a loop over a concrete short sequence is executed element by element
            if isinstance(it, (list, tuple)) and len(it) <= 24 and not st.orelse and not any(isinstance(n, (ast.Break, ast.Continue, ast.Return)) for n in ast.walk(st)):
                for item in it:
                    s.assign(st.target, item, env, mod, depth)
                    if s.block(st.body, env, mod, depth) is RAISE: return RAISE          # an iteration that raises ends the loop and the function
                return
            if isinstance(it, (list, tuple)) and len(it) <= 24 and not st.orelse and not any(isinstance(n, ast.Return) for n in ast.walk(st)):
                # the same with break / continue, as long as every exit test is decided for the concrete items
                snap_env = dict(env); snap_st = dict(s.stores); ok_ = True
                for item in it:
                    s.assign(st.target, item, env, mod, depth)
                    r_ = s.block(st.body, env, mod, depth)
                    if r_ is BREAK: break
                    if r_ is not FALL and r_ is not None: ok_ = False; break
                if ok_: return
                env.clear(); env.update(snap_env); s.stores = snap_st
            sr = s.search_loop(st, it, env, mod, depth)
            if sr is not None: return sr
            # flag = False; for x in it: [tmp = ..] if p(x): flag = True      ==     flag = any(p(x) for x in it)      (and the dual with True / False / all)
            if not st.orelse:
                body_ = list(st.body); temps_ = []
                while len(body_) > 1 and isinstance(body_[0], ast.Assign) and len(body_[0].targets) == 1 and isinstance(body_[0].targets[0], ast.Name) and body_[0].targets[0].id not in _chain_names(env):
                    temps_.append(body_.pop(0))
                if len(body_) == 1 and isinstance(body_[0], ast.If) and not body_[0].orelse and len(body_[0].body) == 1 and isinstance(body_[0].body[0], ast.Assign) \
                        and len(body_[0].body[0].targets) == 1 and isinstance(body_[0].body[0].targets[0], ast.Name) and isinstance(body_[0].body[0].value, ast.Constant) \
                        and isinstance(body_[0].body[0].value.value, bool):
                    fl_ = body_[0].body[0].targets[0].id; newv_ = body_[0].body[0].value.value
                    cur_ = s.lookup(fl_, env, mod) if fl_ in _chain_names(env) else None
                    if cur_ is (not newv_) and fl_ not in tnames:
                        env2 = {'__parent__': env}
                        s.bind_iter(st.target, it, env2, mod, depth, 0)
                        for t_ in temps_: env2[t_.targets[0].id] = s.ev(t_.value, env2, mod, depth)
                        g_ = s.truth(s.ev(body_[0].test, env2, mod, depth))
                        base_, flt_ = _fuse_iter2(_fuse_iter(it))
                        anyv_ = s.builtin('any', [Comp(g_, [(base_, flt_)], 'list')], {}, mod, depth)
                        s.rebind(fl_, anyv_ if newv_ else s.negate(anyv_), env)
                        return
            if s.accumulate(st, it, env, mod, depth): return
            if s.array_build(st, it, env, mod, depth, assigned, tnames): return
            # running sum:  acc = 0; for x in it: [tmp = ..] [if c:] acc += e  (also spelled acc = acc + e)   ==   Σ(e for x in it if c)
            body = list(st.body)
            steps = []          # ('tmp', Assign) | ('if', test)
            def _sum_stmt(b_):
                if isinstance(b_, ast.AugAssign) and isinstance(b_.op, ast.Add) and isinstance(b_.target, ast.Name): return b_.target.id, b_.value
                if isinstance(b_, ast.Assign) and len(b_.targets) == 1 and isinstance(b_.targets[0], ast.Name) and isinstance(b_.value, ast.BinOp) and isinstance(b_.value.op, ast.Add):
                    nm_ = b_.targets[0].id
                    if isinstance(b_.value.left, ast.Name) and b_.value.left.id == nm_: return nm_, b_.value.right
                    if isinstance(b_.value.right, ast.Name) and b_.value.right.id == nm_: return nm_, b_.value.left
                return None
            while True:
                if len(body) > 1 and isinstance(body[0], (ast.Assign, ast.AnnAssign)) and _sum_stmt(body[0]) is None and isinstance(body[0].targets[0] if isinstance(body[0], ast.Assign) else body[0].target, ast.Name) \
                        and (body[0].targets[0] if isinstance(body[0], ast.Assign) else body[0].target).id not in _chain_names(env) and body[0].value is not None:
                    steps.append(('tmp', body.pop(0))); continue
                if len(body) == 1 and isinstance(body[0], ast.If) and not body[0].orelse:
                    steps.append(('if', body[0].test)); body = list(body[0].body); continue
                break
            ss_ = _sum_stmt(body[0]) if len(body) == 1 else None
            if ss_ is not None:
                nm = ss_[0]
                cur = s.lookup(nm, env, mod)
                if isinstance(cur, Poly) and cur.is_zero():
                    env2 = {'__parent__': env}
                    s.bind_iter(st.target, it, env2, mod, depth, 0)
                    fs = []
                    for kind_, x_ in steps:
                        if kind_ == 'tmp':
                            tg_ = x_.targets[0] if isinstance(x_, ast.Assign) else x_.target
                            env2[tg_.id] = s.ev(x_.value, env2, mod, depth)
                        else:
                            fs.append(s.truth(s.ev(x_, env2, mod, depth)))
                    body = [ast.AugAssign(target=ast.Name(id=nm, ctx=ast.Store()), op=ast.Add(), value=ss_[1])]
                    elt_ = s.ev(body[0].value, env2, mod, depth); base_ = _fuse_iter(it); fl_ = [f for f in fs if f is not True]
                    if isinstance(base_, Opq) and len(base_.k) == 2 and base_.k[0] == 'enumerate':
                        ikey_ = repr(('idx', 0, tkey(base_.k[1])))          # the position is not used by the summand: the sum runs over the items themselves
                        if ikey_ not in repr(tkey(elt_)) and not any(ikey_ in repr(tkey(f_)) for f_ in fl_): base_ = _fuse_iter(base_.k[1])
                    s.rebind(nm, Opq('Σ', Comp(elt_, [(base_, fl_)], 'gen')), env)
                    return
            env2 = {'__parent__': env}
            for nm in assigned:
                if nm not in tnames: env2[nm] = Poly.atom(('carried', nm))
            s.bind_iter(st.target, it, env2, mod, depth, 0)
            s.block(st.body, env2, mod, depth)
            summary = {nm: env2.get(nm) for nm in assigned if nm not in tnames}
            init = {nm: s.lookup(nm, env, mod) for nm in summary}
            s.loops.append({'iter': it, 'summary': summary, 'init': init, 'site': getattr(st, 'lineno', 0),
                            'node': st, 'env': env, 'mod': mod, 'assigned': [nm for nm in assigned if nm not in tnames]})
            for nm in summary:
                st_ = summary[nm]
                car = Poly.atom(('carried', nm))
                if isinstance(st_, Opq) and st_.k and st_.k[0] in ('vcat', 'hcat') and len(st_.k) >= 3 and same(st_.k[1], car) \
                        and not any(repr(('carried', nm)) in repr(tkey(x)) for x in st_.k[2:]) and [x for x in assigned if x not in tnames] == [nm]:
                    # X = stack([X, row(i)]) for i in it:  the rows of the comprehension appended to the seed
                    rows_ = [Opq('rows', Comp(x, [(it, [])], 'list')) for x in st_.k[2:]]
                    if len(rows_) == 1:
                        s.rebind(nm, s.npcall('vstack' if st_.k[0] == 'vcat' else 'hstack', [[init[nm]] + rows_], {}), env)
                        continue
                s.rebind(nm, Opq('loop', it, Opq('init', init[nm]), Opq('step', summary[nm])), env)
        else:
            for nm in assigned: s.rebind(nm, Opq('?', 'while-carried ' + nm), env)

    # ---- accumulate loops  ==  comprehensions
    def search_loop(s, st, it, env, mod, depth):
        """for x in it: [tmp = ..] if test(x): return CONST      ==  ('return-if', any(test(x) for x in it), CONST)   -- the caller continues with what
        follows the loop on the other arm"""
        if st.orelse: return None
        body = list(st.body)
        temps = []
        while body and isinstance(body[0], (ast.Assign, ast.AnnAssign)) and isinstance(body[0].targets[0] if isinstance(body[0], ast.Assign) else body[0].target, ast.Name):
            temps.append(body.pop(0))
        if len(body) != 1 or not isinstance(body[0], ast.If) or body[0].orelse or len(body[0].body) != 1 or not isinstance(body[0].body[0], ast.Return): return None
        env2 = {'__parent__': env}
        s.bind_iter(st.target, it, env2, mod, depth, 0)
        for t_ in temps:
            tg_ = t_.targets[0] if isinstance(t_, ast.Assign) else t_.target
            if t_.value is None or tg_.id in _chain_names(env): return None
            env2[tg_.id] = s.ev(t_.value, env2, mod, depth)
        g = s.truth(s.ev(body[0].test, env2, mod, depth))
        rv = s.ev(body[0].body[0].value, env2, mod, depth) if body[0].body[0].value is not None else None
        beta_key = repr(tkey(s.elem_of(it, 0)))
        if beta_key in repr(tkey(rv)): return None           # the returned value depends on the element found: first-match semantics, not modelled
        base_, fl_ = _fuse_iter2(_fuse_iter(it))
        return ('return-if', s.builtin('any', [Comp(g, [(base_, fl_)], 'list')], {}, mod, depth), rv)

    def _acc_target(s, e, env, mod, depth):
        """(kind of place, key, current value) of an accumulator expression: a local name or an attribute of an atom (self.x)"""
        if isinstance(e, ast.Name):
            try: return ('name', e.id, s.lookup(e.id, env, mod))
            except Exception: return None
        if isinstance(e, ast.Attribute):
            base = s.ev(e.value, env, mod, depth)
            if isinstance(base, Poly) and base.as_atom() is not None:
                return ('store', (base.as_atom(), e.attr), s.stores.get((base.as_atom(), e.attr)))
            if isinstance(base, Rec): return ('rec', (base, e.attr), base.f.get(e.attr))
        return None

    @staticmethod
    def _empty_acc(v):
        if isinstance(v, list) and not v: return 'list'
        if isinstance(v, dict) and not v: return 'dict'
        if isinstance(v, Opq) and v.k and v.k[0] == 'set' and len(v.k) == 1: return 'set'
        return None

    def _acc_ok(s, v, kind):
        """may `v` be the accumulator of an append / add / store loop of this kind?  an empty container, or a list that already holds items"""
        if s._empty_acc(v) == kind: return True
        return kind == 'list' and (isinstance(v, list) or (isinstance(v, Comp) and v.kind == 'list') or (isinstance(v, Opq) and bool(v.k) and v.k[0] == 'concat'))

    def accumulate(s, st, it, env, mod, depth):
        """out = [] / set() / {}; for x in it: [tmp = ..] [if c: continue] [if c:] out.append(e) / out.add(e) / out[k] = v   (loops may nest)
        is the comprehension  [e for x in it if c]  -- recognised so that either spelling has the same normal form"""
        records = {}            # accumulator key -> (place, kind, elt)
        gens = []               # [(iter value, [filters])]
        ok = [True]

        def walk(stmts, env2, level):
            stmts = [(_lookup_try_as_if(x_) or x_) if isinstance(x_, ast.Try) else x_ for x_ in stmts]          # guarded table lookups are membership tests
            for stx in stmts:
                if not ok[0]: return
                if isinstance(stx, ast.Pass) or (isinstance(stx, ast.Expr) and isinstance(stx.value, ast.Constant)): continue
                if isinstance(stx, (ast.Assign, ast.AnnAssign)) and not isinstance(stx, ast.AugAssign):
                    tg = stx.targets[0] if isinstance(stx, ast.Assign) else stx.target
                    if isinstance(tg, ast.Subscript):
                        place = s._acc_target(tg.value, env, mod, depth)
                        if place is None or s._empty_acc(place[2]) != 'dict' or (place[0], _pk(place[1])) in records: ok[0] = False; return
                        k = s.ev(tg.slice, env2, mod, depth); v = s.ev(stx.value, env2, mod, depth)
                        records[(place[0], _pk(place[1]))] = (place, 'dict', (k, v)); continue
                    if isinstance(tg, (ast.Name, ast.Tuple)) and stx.value is not None:
                        names = [x.id for x in ast.walk(tg) if isinstance(x, ast.Name)]
                        if any(s._empty_acc(s.lookup(nm_, env, mod)) for nm_ in names if nm_ in _chain_names(env)): ok[0] = False; return
                        s.assign(tg, s.ev(stx.value, env2, mod, depth), env2, mod, depth); continue
                    ok[0] = False; return
                if isinstance(stx, ast.If) and not _touches_accumulator(stx):
                    # a conditional that only updates loop-local temporaries: merged into conditional values
                    r_ = s.block([stx], env2, mod, depth)
                    if r_ is not FALL and r_ is not None: ok[0] = False; return
                    continue
                if isinstance(stx, ast.If) and stx.orelse and len(stx.body) == 1 and len(stx.orelse) == 1 and _is_append(stx.body[0]) and _is_append(stx.orelse[0]) \
                        and ast.dump(stx.body[0].value.func) == ast.dump(stx.orelse[0].value.func):
                    # if c: out.append(a) else: out.append(b)   ==   out.append(a if c else b)
                    g = s.truth(s.ev(stx.test, env2, mod, depth))
                    c1 = stx.body[0].value
                    place = s._acc_target(c1.func.value, env, mod, depth)
                    kind = {'append': 'list', 'add': 'set'}[c1.func.attr]
                    if place is None or not s._acc_ok(place[2], kind) or (place[0], _pk(place[1])) in records: ok[0] = False; return
                    a_ = s.ev(c1.args[0], env2, mod, depth); b_ = s.ev(stx.orelse[0].value.args[0], env2, mod, depth)
                    records[(place[0], _pk(place[1]))] = (place, kind, s.mkcond(g, a_, b_)); continue
                if isinstance(stx, ast.If):
                    g = s.truth(s.ev(stx.test, env2, mod, depth))
                    if not stx.orelse and len(stx.body) == 1 and isinstance(stx.body[0], ast.Continue):
                        gens[level][1].append(s.negate(g)); s.refine_env(env2, g, False); continue
                    if stx.orelse and all(isinstance(b_, ast.Pass) for b_ in stx.body):
                        # if c: pass  else: body     ==     if not c: body
                        inv_ = ast.copy_location(ast.If(test=ast.UnaryOp(op=ast.Not(), operand=stx.test), body=stx.orelse, orelse=[]), stx)
                        walk([ast.fix_missing_locations(inv_)] + [x_ for x_ in stmts[stmts.index(stx) + 1:]], env2, level)
                        return
                    if len(stx.orelse) == 1 and isinstance(stx.orelse[0], ast.Continue):
                        # if c: body  else: continue   ==   if not c: continue; body     (what follows the if runs only when c held)
                        gens[level][1].append(g); s.refine_env(env2, g, True)
                        walk(stx.body, env2, level)
                        if not ok[0]: return
                        continue
                    if not stx.orelse:
                        before = len(gens[level][1])
                        gens[level][1].append(g)
                        n_before = len(records)
                        walk(stx.body, {'__parent__': env2}, level)
                        if not ok[0]: return
                        if len(records) == n_before: ok[0] = False; return      # a conditional block without effect on an accumulator: not this idiom
                        # statements after the if would run unconditionally: only allowed when nothing follows
                        if stx is not stmts[-1]: ok[0] = False; return
                        continue
                    ok[0] = False; return
                if isinstance(stx, ast.Expr) and isinstance(stx.value, ast.Call) and isinstance(stx.value.func, ast.Attribute) and stx.value.func.attr in ('append', 'add') and len(stx.value.args) == 1:
                    place = s._acc_target(stx.value.func.value, env, mod, depth)
                    kind = {'append': 'list', 'add': 'set'}[stx.value.func.attr]
                    if place is None or not s._acc_ok(place[2], kind) or (place[0], _pk(place[1])) in records: ok[0] = False; return
                    records[(place[0], _pk(place[1]))] = (place, kind, s.ev(stx.value.args[0], env2, mod, depth)); continue
                if isinstance(stx, ast.Expr) and isinstance(stx.value, ast.Call) and isinstance(stx.value.func, ast.Attribute) and stx.value.func.attr in ('extend', 'update') \
                        and len(stx.value.args) == 1 and not stx.value.keywords and stx is stmts[-1]:
                    # out.extend(xs) / out.update(xs)  ==  one more generator:  ... for y in xs  with element y
                    place = s._acc_target(stx.value.func.value, env, mod, depth)
                    kind = {'extend': 'list', 'update': 'set'}[stx.value.func.attr]
                    if place is None or not s._acc_ok(place[2], kind) or (place[0], _pk(place[1])) in records: ok[0] = False; return
                    it2 = s._iterable(s.ev(stx.value.args[0], env2, mod, depth))
                    while isinstance(it2, Cond) and not isinstance(it2, BoolSel) and ((isinstance(it2.b, (list, tuple)) and not it2.b) or (isinstance(it2.a, (list, tuple)) and not it2.a)):
                        # out.extend(ys if c else []): nothing is added when c fails -- c filters the enclosing generator
                        if isinstance(it2.b, (list, tuple)) and not it2.b: gens[level][1].append(it2.g); it2 = it2.a
                        else: gens[level][1].append(s.negate(it2.g)); it2 = it2.b
                    if isinstance(it2, dict) or kind == 'set' and s._empty_acc(place[2]) == 'dict': ok[0] = False; return
                    gens.append((it2, []))
                    records[(place[0], _pk(place[1]))] = (place, kind, s.elem_of(it2, len(gens) - 1)); continue
                if isinstance(stx, ast.For) and not stx.orelse:
                    it2 = s._iterable(s.ev(stx.iter, env2, mod, depth))
                    env3 = {'__parent__': env2}
                    gens.append((it2, []))
                    s.bind_iter(stx.target, it2, env3, mod, depth, len(gens) - 1)
                    walk(stx.body, env3, len(gens) - 1)
                    if stx is not stmts[-1]: ok[0] = False
                    continue
                ok[0] = False; return

        if st.orelse: return False
        env2 = {'__parent__': env}
        gens.append((it, []))
        s.bind_iter(st.target, it, env2, mod, depth, 0)
        try:
            walk(st.body, env2, 0)
        except Exception:
            return False
        if not ok[0] or not records: return False
        for (pk, _), (place, kind, elt) in records.items():
            gs = []
            for gi_, (g_it, fs) in enumerate(gens):
                if gi_ == 0:
                    base_, fl_ = _fuse_iter2(_fuse_iter(g_it))
                    gs.append((base_, fl_ + [f for f in fs if f is not True]))
                else:
                    gs.append((g_it, [f for f in fs if f is not True]))
            if kind in ('list', 'set') and gs and isinstance(gs[0][0], Opq) and len(gs[0][0].k) == 2 and gs[0][0].k[0] == 'enumerate':
                # the position is not used by what is collected: the loop visits the items of xs themselves
                ikey_ = repr(('idx', 0, tkey(gs[0][0].k[1])))
                if ikey_ not in repr(tkey(elt)) and not any(ikey_ in repr(tkey(f_)) for _, fs_ in gs for f_ in fs_) and not any(ikey_ in repr(tkey(g_)) for g_, _ in gs[1:]):
                    b2_, f2_ = _fuse_iter2(_fuse_iter(gs[0][0].k[1]))
                    gs[0] = (b2_, f2_ + list(gs[0][1]))
            if any(f is False for _, fs in gs for f in fs): val = {'list': [], 'set': Opq('set'), 'dict': {}}[kind]
            elif kind == 'set' and len(gs) == 1 and not gs[0][1] and same(elt, s.elem_of(gs[0][0], 0)) and not isinstance(gs[0][0], (list, tuple, dict)):
                val = s.builtin('set', [gs[0][0]], {}, mod, depth)          # every item added unchanged: set(xs)
            else: val = Comp(elt, gs, kind)
            if kind == 'list' and s._empty_acc(place[2]) != 'list': val = s._binop(ast.Add(), place[2], val)      # appended to what the list already held
            if place[0] == 'name': s.rebind(place[1], val, env)
            elif place[0] == 'store': s.stores[place[1]] = val
            else: place[1][0].f[place[1][1]] = val
        return True

    # ---- array-building loops:  M = zeros(..); for ..: [if ..] M[i][j] (+)= v     ==  build(init, stores...)
    def negate_value(s, v):
        return s.binop(ast.Mult(), Poly.const(-1), v)

    def _index_terms(s, t, env, mod, depth):
        """(root Name node, [index terms]) of a (chained) subscript target  M[i][j] / M[i, j] / M[f(a, b)]"""
        chain = []
        while isinstance(t, ast.Subscript):
            chain.append(t.slice); t = t.value
        if not isinstance(t, ast.Name): return None, None
        idx = []
        for sl in reversed(chain):
            items = sl.elts if isinstance(sl, ast.Tuple) else [sl]
            for it_ in items:
                if isinstance(it_, ast.Slice):
                    idx.append(Opq('slice', *[s.ev(x, env, mod, depth) if x is not None else None for x in (it_.lower, it_.upper, it_.step)]))
                else:
                    v = s.ev(it_, env, mod, depth)
                    if isinstance(v, (tuple, list)) and not isinstance(sl, ast.Tuple) and len(items) == 1: idx += list(v)
                    else: idx.append(v)
        return t, idx

    def _note_view(s, name, value, env, mod):
        """x = y[...] / y.T / y.reshape(..) of an array-valued local y may be a numpy VIEW: remember it, so that a later store through x is
        not silently lost (the array y is then no longer known)"""
        v = value
        while isinstance(v, (ast.Subscript, ast.Attribute)) or (isinstance(v, ast.Call) and isinstance(v.func, ast.Attribute) and v.func.attr in ('reshape', 'ravel', 'view', 'transpose', 'squeeze')):
            v = v.func.value if isinstance(v, ast.Call) else v.value
        views = env.setdefault('__views__', {})
        views.pop(name, None)
        if v is value or not isinstance(v, ast.Name) or v.id == name: return
        try: cur = s.lookup(v.id, env, mod)
        except Exception: return
        if not _is_arraylike(cur): return
        lows = None
        if isinstance(value, ast.Subscript) and value.value is v:
            # y[lo0:hi0, lo1:hi1]: element (i, j) of the view is element (lo0 + i, lo1 + j) of y
            items = value.slice.elts if isinstance(value.slice, ast.Tuple) else [value.slice]
            if all(isinstance(it_, ast.Slice) and it_.step is None for it_ in items):
                lows = [s.ev(it_.lower, env, mod, 0) if it_.lower is not None else Poly.const(0) for it_ in items]
                if not all(isinstance(l_, Poly) for l_ in lows): lows = None
        views[name] = (v.id, lows)

    def _view_of(s, name, env):
        e = env
        while e is not None:
            vw = e.get('__views__', {}).get(name) if isinstance(e.get('__views__'), dict) else None
            if vw is not None: return vw
            if name in e: return None
            e = e.get('__parent__')
        return None

    def _store_through_view(s, name, idx, env):
        """(base name, translated indices) when `name` is a slice view whose element positions translate; the base array is forgotten when
        they do not (the store cannot be attributed)"""
        vw = s._view_of(name, env)
        if vw is None: return None
        base, lows = vw
        if lows is not None and len(idx) <= len(lows) and all(isinstance(i_, Poly) for i_ in idx):
            return base, [l_ + i_ for l_, i_ in zip(lows, idx)]
        s.rebind(base, Opq('?', f'{base} is written through the view {name}'), env)
        if s._build is not None: s._build['ok'] = False
        return None

    def array_store(s, target, val, env, mod, depth, aug=False):
        """record  M[idx] (+)= val  on an array-valued local as a store record of its build term; False when this is not an array store"""
        root, idx = s._index_terms(target, env, mod, depth)
        if root is None: return False
        tv = s._store_through_view(root.id, idx, env)
        if tv is not None: root, idx = ast.Name(id=tv[0], ctx=ast.Load()), tv[1]
        try: cur = s.lookup(root.id, env, mod)
        except Exception: return False
        if isinstance(cur, Cond) and s._build is None and all(_is_arraylike(l_) for _, l_ in paths_of(cur)):
            # the array was written on one path of an earlier test only: the store goes into the array of either path
            pc_ = s._pc
            guard_ = s.mkbool('and', [g if pol else s.negate(g) for g, pol in pc_]) if s._undecided else True
            rec_ = Opq('st', (), guard_, tuple(idx), val, bool(aug))
            def put(x):
                if isinstance(x, Cond): return Cond(x.g, put(x.a), put(x.b))
                base_, recs_ = (x.k[1], list(x.k[2])) if (isinstance(x, Opq) and x.k[0] == 'build') else (x, [])
                return Opq('build', base_, tuple(recs_ + [rec_]))
            s.rebind(root.id, put(cur), env)
            return True
        if not _is_arraylike(cur): return False
        b = s._build
        pc = s._pc[b['pc0']:] if b is not None else []
        guard = s.mkbool('and', [g if pol else s.negate(g) for g, pol in pc])
        rec = Opq('st', tuple(b['gens']) if b is not None else (), guard, tuple(idx), val, bool(aug))
        if b is not None and root.id not in b['inner']:
            b['recs'].setdefault(root.id, []).append(rec)
            return True
        base, recs = (cur.k[1], list(cur.k[2])) if (isinstance(cur, Opq) and cur.k[0] == 'build') else (cur, [])
        bt = Opq('build', base, tuple(recs + [rec]))
        s.builds.append({'name': root.id, 'term': bt, 'mod': mod, 'line': getattr(target, 'lineno', 0)})
        s.rebind(root.id, bt, env)
        return True

    def array_build(s, st, it, env, mod, depth, assigned, tnames):
        """a loop whose only effect on outer names is storing into arrays: the arrays become build terms (bound variables canonical,
        the local names of the loop do not appear)"""
        outer = s._build
        arrays, others = [], []
        assigned = []
        for n in ast.walk(st):
            tgts = []
            if isinstance(n, ast.Assign): tgts = n.targets
            elif isinstance(n, (ast.AugAssign, ast.AnnAssign)): tgts = [n.target]
            elif isinstance(n, ast.For): tgts = [n.target]
            elif isinstance(n, ast.NamedExpr): tgts = [n.target]
            elif isinstance(n, ast.Expr) and isinstance(n.value, ast.Call) and isinstance(n.value.func, ast.Attribute) and isinstance(n.value.func.value, ast.Name) \
                    and n.value.func.attr in ('append', 'update', 'extend', 'add', 'remove', 'pop', 'sort', 'insert', 'clear'):
                assigned.append(n.value.func.value.id)
            for t in tgts:
                for x in ([t] if not isinstance(t, (ast.Tuple, ast.List)) else ast.walk(t)):
                    while isinstance(x, (ast.Subscript, ast.Attribute)): x = x.value
                    if isinstance(x, ast.Name) and x.id not in assigned: assigned.append(x.id)
        for nm in assigned:
            if nm in tnames: continue
            vw_ = s._view_of(nm, env)
            if vw_ is not None:
                # the loop stores through a slice view: the stores belong to the array the view was taken from
                if vw_[1] is not None: nm = vw_[0]
                else:
                    s.rebind(vw_[0], Opq('?', f'{vw_[0]} is written through the view {nm}'), env)
                    if outer is not None: outer['ok'] = False
                    return False
            try: cur = s.lookup(nm, env, mod)
            except Exception: cur = None
            if cur is not None and _is_arraylike(cur): arrays.append(nm)
            elif nm in _chain_names(env): others.append(nm)
        if outer is None and (not arrays or others): return False
        if any(isinstance(n, (ast.Return, ast.Break, ast.While)) for n in ast.walk(st)) or st.orelse: 
            if outer is not None: outer['ok'] = False
            return False
        if outer is None:
            b = s._build = {'gens': [], 'pc0': len(s._pc), 'recs': {}, 'ok': True, 'inner': set()}
        else:
            b = outer
            if others: b['ok'] = False
        level = len(b['gens'])
        b['gens'].append(it)
        env2 = {'__parent__': env}
        snapshot = (dict(s.stores), list(s.mutations))
        try:
            s.bind_iter(st.target, it, env2, mod, depth, level)
            s._undecided += 1
            try: s.block(st.body, env2, mod, depth)
            finally: s._undecided -= 1
        except Exception:
            b['ok'] = False
        b['gens'].pop()
        if outer is not None: return True
        s._build = None
        if not b['ok'] or not b['recs']:
            s.stores, s.mutations = snapshot
            return False
        for nm, recs in b['recs'].items():
            cur = s.lookup(nm, env, mod)
            base, old = (cur.k[1], list(cur.k[2])) if (isinstance(cur, Opq) and cur.k[0] == 'build') else (cur, [])
            bt = Opq('build', base, tuple(old + recs))
            s.builds.append({'name': nm, 'term': bt, 'mod': mod, 'line': getattr(st, 'lineno', 0)})
            s.rebind(nm, bt, env)
        return True

    def exec_module(s, mod):
        """run the top-level statements of a module once (assignments, decorated definitions, table updates) and return its namespace"""
        env = {'__parent__': None}
        try:
            s.block([st for st in mod.tree.body if not isinstance(st, (ast.Import, ast.ImportFrom)) and not (isinstance(st, ast.ClassDef) and not st.decorator_list)], env, mod, 1)
        except Exception:
            pass
        return env

    def reeval_loop(s, lp, target_value, depth=1):
        """evaluate the body of a summarised loop once more with the loop target bound to `target_value` (carried names stay atoms)"""
        env2 = {'__parent__': lp['env']}
        for nm in lp['assigned']: env2[nm] = Poly.atom(('carried', nm))
        s.assign(lp['node'].target, target_value, env2, lp['mod'], depth)
        s.block(lp['node'].body, env2, lp['mod'], depth)
        return {nm: env2.get(nm) for nm in lp['assigned']}

    def assign(s, t, val, env, mod, depth):
        if isinstance(t, ast.Name):
            env[t.id] = val
        elif isinstance(t, (ast.Tuple, ast.List)):
            if isinstance(val, Rec) and s.namedtuple_items(val) is not None: val = s.namedtuple_items(val)
            stars_ = [i_ for i_, x_ in enumerate(t.elts) if isinstance(x_, ast.Starred)]
            if len(stars_) == 1 and isinstance(val, (tuple, list)) and len(val) >= len(t.elts) - 1:
                # a, *rest, z = concrete sequence
                i_ = stars_[0]; tail_ = len(t.elts) - i_ - 1
                for x_, v_ in zip(t.elts[:i_], val[:i_]): s.assign(x_, v_, env, mod, depth)
                s.assign(t.elts[i_].value, list(val[i_:len(val) - tail_]), env, mod, depth)
                for x_, v_ in zip(t.elts[i_ + 1:], val[len(val) - tail_:]): s.assign(x_, v_, env, mod, depth)
                return
            if stars_:
                for x_ in t.elts:
                    for n_ in ast.walk(x_):
                        if isinstance(n_, ast.Name): env[n_.id] = Opq('?', 'starred unpacking of ' + repr(val)[:40])
                return
            if isinstance(val, Cond):
                for i, x in enumerate(t.elts):
                    s.assign(x, s.getitem(val, Poly.const(i)), env, mod, depth)
            elif isinstance(val, (tuple, list)) and len(val) == len(t.elts):
                for x, v in zip(t.elts, val): s.assign(x, v, env, mod, depth)
            else:
                for i, x in enumerate(t.elts): s.assign(x, s.getitem(val, Poly.const(i)), env, mod, depth)
        elif isinstance(t, ast.Attribute):
            s.store_attr(s.ev(t.value, env, mod, depth), t.attr, val)
        elif isinstance(t, ast.Subscript) and s.array_store(t, val, env, mod, depth):
            pass
        elif isinstance(t, ast.Subscript):
            base = s.ev(t.value, env, mod, depth)
            k = s.ev(t.slice, env, mod, depth) if not isinstance(t.slice, ast.Slice) else None
            if isinstance(base, dict) and isinstance(k, (str, Poly, Ref)) and s._undecided > 0:
                # the dictionary object is shared by both arms of an undecided test: a store on one arm holds on that arm only
                pc_ = [(g_, pol_) for g_, pol_ in s._pc if not isinstance(g_, bool)]
                if pc_:
                    kk_ = k if isinstance(k, str) else next((x for x in base if isinstance(x, _HK) and same(x.v, k)), None)
                    old_ = base.get(kk_) if kk_ is not None and kk_ in base else Opq('?', 'key not set on this path')
                    val = s.mkcond(s.mkbool('and', [g_ if pol_ else s.negate(g_) for g_, pol_ in pc_]), val, old_)
            if isinstance(base, dict) and isinstance(k, str): base[k] = val
            elif isinstance(base, dict) and isinstance(k, Poly) and k.is_const() and all(not isinstance(x, Opq) for x in base): base[_HK(k)] = val
            elif isinstance(base, dict) and isinstance(k, Ref) and all(not isinstance(x, Opq) for x in base):
                # a class / function object as key (a registry keyed by type)
                old_ = next((x for x in base if isinstance(x, _HK) and same(x.v, k)), None)
                base[old_ if old_ is not None else _HK(k)] = val
            elif isinstance(base, Poly) and base.as_atom() is not None and isinstance(k, (str, int)) and not isinstance(k, bool):
                s.stores[(base.as_atom(), ('[]', k))] = val
                s.mutations.append((ast.unparse(t.value), '__setitem__', [k, val]))
            elif isinstance(t.value, ast.Name):
                s.mutations.append((t.value.id, '__setitem__', [k, val]))
                s.rebind(t.value.id, Opq('mutated', 'setitem', base, k, val), env)


ARRAY_HEADS = ('np.zeros', 'np.empty', 'np.ndarray', 'np.zeros_like', 'np.empty_like', 'np.full', 'np.eye', 'np.identity', 'build', 'hcat', 'vcat', 'np.diag', 'np.copy', 'np.array')


def _is_arraylike(v):
    return isinstance(v, Opq) and bool(v.k) and v.k[0] in ARRAY_HEADS


def term_from_key(k):
    """polynomial (or string / number) denoted by a key"""
    if isinstance(k, tuple) and k[:1] == ('poly',): return Poly({mono: c for mono, c in k[1:]})
    if isinstance(k, (str, int)) or k is None: return k
    if isinstance(k, tuple) and k[:1] == ('cond',) and len(k) == 4:
        g, a, b = (term_from_key(x) for x in k[1:])
        o = object.__new__(Cond); o.g = g; o.a = a; o.b = b
        return o
    if isinstance(k, tuple) and k[:1] == ('opq',): return Opq(*[_sub_from_key(x) for x in k[1:]])
    if isinstance(k, tuple) and k[:1] in (('tuple',), ('list',)) and len(k) == 2:
        xs = [_sub_from_key(x) for x in k[1]]
        return tuple(xs) if k[0] == 'tuple' else xs
    return None


class _Keyed:
    """a sub-term known only by its key"""
    def __init__(s, k): s.k = k
    def key(s): return s.k
    def __repr__(s): return show(s.k) if isinstance(s.k, tuple) else repr(s.k)


def _sub_from_key(k):
    t = term_from_key(k)
    if t is None and k is not None: return _Keyed(k)
    return t


def subst_key(k, old, new, old_atom=None, new_atom=None):
    """replace a sub-key everywhere (also where the old term occurs as a bare atom in an atom-name slot)"""
    if k == old: return new
    if old_atom is not None and k == old_atom: return new_atom if new_atom is not None else new
    if isinstance(k, tuple): return tuple(subst_key(x, old, new, old_atom, new_atom) for x in k)
    return k


def _positions_of(it):
    """(xs, filters, predicate) when `it` is np.flatnonzero of the truth values [p(x) for x in xs]: the positions of xs at which p holds"""
    if isinstance(it, Opq) and it.k and it.k[0] == 'list' and len(it.k) == 2: it = it.k[1]
    if isinstance(it, Opq) and len(it.k) == 2 and it.k[0] == 'np.flatnonzero':
        m_ = it.k[1]
        if isinstance(m_, Comp) and m_.kind in ('list', 'gen') and len(m_.gens) == 1 and _is_boolterm(m_.elt):
            return m_.gens[0][0], list(m_.gens[0][1]), m_.elt
    return None


def _fuse_iter2(it):
    """(base, filters): iterating the list comprehension [g(x) for x in base if f(x)] visits g(x) for the x of base that pass f, in order;
    the loop variable is already expressed over the element of base, so the generator is (base, [f...])"""
    fl = []
    for _ in range(8):
        if isinstance(it, Comp) and it.kind in ('list', 'gen') and len(it.gens) == 1:
            fl = list(it.gens[0][1]) + fl
            it = it.gens[0][0]; continue
        break
    return it, fl


def _fuse_iter(it):
    """map fusion: iterating a filter-free list comprehension over `base` (or a zip of such maps / of the base itself) visits the elements of
    `base` in order -- the bound variables are already expressed over the element of `base`"""
    for _ in range(8):
        if isinstance(it, Comp) and it.kind in ('list', 'gen') and len(it.gens) == 1 and not it.gens[0][1]:
            it = it.gens[0][0]; continue
        if isinstance(it, Opq) and it.k and it.k[0] == 'zip' and len(it.k) >= 2:
            bases = [_fuse_iter(a) for a in it.k[1:] if not (isinstance(a, Opq) and len(a.k) == 2 and a.k[0] == 'repeat')]      # repeat(x) never ends
            if not bases: break
            if all(same(b, bases[0]) for b in bases[1:]) and not isinstance(bases[0], (list, tuple, dict)):
                it = bases[0]; continue
        break
    return it


def _sentinel(v):
    if isinstance(v, Poly):
        at = v.as_atom()
        if isinstance(at, tuple) and at[:1] == ('sentinel',): return at
    return None


_GEN_CACHE = {}


def _generator_body(fn):
    """body of a generator function rewritten to collect what it yields: `yield v` -> acc.append(v), `yield from xs` -> acc.extend(xs),
    `return` -> return acc; None for ordinary functions and for generators that use the value of a yield expression"""
    if id(fn) in _GEN_CACHE: return _GEN_CACHE[id(fn)][1]
    def own_nodes(n):
        for c in ast.iter_child_nodes(n):
            if isinstance(c, (ast.FunctionDef, ast.AsyncFunctionDef, ast.Lambda, ast.ClassDef)): continue
            yield c
            yield from own_nodes(c)
    ys = [n for n in own_nodes(fn) if isinstance(n, (ast.Yield, ast.YieldFrom))]
    out = None
    if ys:
        import copy as _copy
        ok = [True]
        ACC = '__yielded'
        class _Y(ast.NodeTransformer):
            def visit_FunctionDef(self, n): return n
            def visit_Lambda(self, n): return n
            def visit_Expr(self, n):
                if isinstance(n.value, ast.Yield):
                    v_ = n.value.value if n.value.value is not None else ast.Constant(value=None)
                    return ast.copy_location(ast.Expr(value=ast.Call(func=ast.Attribute(value=ast.Name(id=ACC, ctx=ast.Load()), attr='append', ctx=ast.Load()), args=[v_], keywords=[])), n)
                if isinstance(n.value, ast.YieldFrom):
                    return ast.copy_location(ast.Expr(value=ast.Call(func=ast.Attribute(value=ast.Name(id=ACC, ctx=ast.Load()), attr='extend', ctx=ast.Load()), args=[n.value.value], keywords=[])), n)
                return n
            def visit_Return(self, n):
                return ast.copy_location(ast.Return(value=ast.Name(id=ACC, ctx=ast.Load())), n)
        body = [_Y().visit(_copy.deepcopy(b_)) for b_ in fn.body]
        left = [n for b_ in body for n in ast.walk(b_) if isinstance(n, (ast.Yield, ast.YieldFrom))]
        if not left:
            init = ast.copy_location(ast.Assign(targets=[ast.Name(id=ACC, ctx=ast.Store())], value=ast.List(elts=[], ctx=ast.Load())), fn.body[0])
            fin = ast.copy_location(ast.Return(value=ast.Name(id=ACC, ctx=ast.Load())), fn.body[-1])
            out = [ast.fix_missing_locations(x_) for x_ in [init] + body + [fin]]
    _GEN_CACHE[id(fn)] = (fn, out)
    return out


def _lookup_try_as_if(st):
    """try: x = T[k]  except KeyError: H  [else: E]     ==     if k in T: x = T[k]; E   else: H        (T and k plain names / attribute paths:
    nothing else in the guarded statement can raise KeyError)"""
    if len(st.body) != 1 or len(st.handlers) != 1 or st.finalbody: return None
    h = st.handlers[0]
    if h.type is None or ast.unparse(h.type).split('.')[-1] != 'KeyError': return None
    b = st.body[0]
    if isinstance(b, ast.Assign) and len(b.targets) == 1 and isinstance(b.targets[0], ast.Name): val = b.value
    elif isinstance(b, ast.AnnAssign) and isinstance(b.target, ast.Name) and b.value is not None: val = b.value
    else: return None
    def plain(e):
        while isinstance(e, ast.Attribute): e = e.value
        return isinstance(e, (ast.Name, ast.Constant))
    if not (isinstance(val, ast.Subscript) and plain(val.value) and plain(val.slice)): return None
    if h.name and any(isinstance(n, ast.Name) and n.id == h.name for x in h.body for n in ast.walk(x)): return None
    test = ast.Compare(left=val.slice, ops=[ast.In()], comparators=[val.value])
    node = ast.If(test=test, body=[b] + list(st.orelse), orelse=list(h.body) or [ast.Pass()])
    return ast.fix_missing_locations(ast.copy_location(node, st))


def _match_as_ifs(st):
    if isinstance(st.subject, ast.NamedExpr) and isinstance(st.subject.target, ast.Name):
        # match (x := subject): the subject is evaluated and bound once, then matched
        inner = ast.copy_location(ast.Match(subject=ast.copy_location(ast.Name(id=st.subject.target.id, ctx=ast.Load()), st), cases=st.cases), st)
        chain = _match_as_ifs_(inner)
        if chain is None: return None
        return [ast.fix_missing_locations(ast.copy_location(ast.Assign(targets=[ast.Name(id=st.subject.target.id, ctx=ast.Store())], value=st.subject.value), st))] + chain
    return _match_as_ifs_(st)


def _match_as_ifs_(st):
    """match subject: case <literal | literal | ...>: ...  case _: ...   as an if / elif chain (None for structural patterns)"""
    def test(pat):
        if isinstance(pat, ast.MatchValue): return ast.Compare(left=st.subject, ops=[ast.Eq()], comparators=[pat.value])
        if isinstance(pat, ast.MatchSingleton): return ast.Compare(left=st.subject, ops=[ast.Is()], comparators=[ast.Constant(value=pat.value)])
        if isinstance(pat, ast.MatchSequence) and pat.patterns and all(isinstance(p_, ast.MatchValue) for p_ in pat.patterns):
            return ast.Compare(left=ast.Call(func=ast.Name(id='list', ctx=ast.Load()), args=[st.subject], keywords=[]), ops=[ast.Eq()],
                               comparators=[ast.List(elts=[p_.value for p_ in pat.patterns], ctx=ast.Load())])
        if isinstance(pat, ast.MatchSequence) and isinstance(st.subject, ast.Tuple) and len(st.subject.elts) == len(pat.patterns) \
                and not any(isinstance(p_, ast.MatchStar) for p_ in pat.patterns):
            # match a, b, c: case x, _, 0 [if guard]: element-wise on a subject written as a tuple display (its length is known)
            conds = []
            for sub_, p_ in zip(st.subject.elts, pat.patterns):
                if isinstance(p_, ast.MatchValue): conds.append(ast.Compare(left=sub_, ops=[ast.Eq()], comparators=[p_.value]))
                elif isinstance(p_, ast.MatchSingleton): conds.append(ast.Compare(left=sub_, ops=[ast.Is()], comparators=[ast.Constant(value=p_.value)]))
                elif isinstance(p_, ast.MatchAs) and p_.pattern is None:
                    if p_.name is not None: case_binds.setdefault(id(pat), {})[p_.name] = sub_
                else: return None
            return ast.BoolOp(op=ast.And(), values=conds) if len(conds) > 1 else (conds[0] if conds else ast.Constant(value=True))
        if isinstance(pat, ast.MatchSequence) and not isinstance(st.subject, ast.Tuple) and not any(isinstance(p_, ast.MatchStar) for p_ in pat.patterns):
            # case []: / case [x]: / case [a, 1]: on a sequence-valued subject: its length, then element by element (the subject expression is
            # evaluated once per use; it is side-effect free in this code base: a name, an attribute, a comprehension)
            sub = st.subject
            conds = [ast.Compare(left=ast.Call(func=ast.Name(id='len', ctx=ast.Load()), args=[sub], keywords=[]), ops=[ast.Eq()], comparators=[ast.Constant(value=len(pat.patterns))])]
            for i_, p_ in enumerate(pat.patterns):
                item = ast.Subscript(value=sub, slice=ast.Constant(value=i_), ctx=ast.Load())
                if isinstance(p_, ast.MatchValue): conds.append(ast.Compare(left=item, ops=[ast.Eq()], comparators=[p_.value]))
                elif isinstance(p_, ast.MatchAs) and p_.pattern is None:
                    if p_.name is not None: case_binds.setdefault(id(pat), {})[p_.name] = item
                else: return None
            return ast.BoolOp(op=ast.And(), values=conds) if len(conds) > 1 else conds[0]
        if isinstance(pat, ast.MatchOr):
            ts = [test(p_) for p_ in pat.patterns]
            return None if any(t is None for t in ts) else ast.BoolOp(op=ast.Or(), values=ts)
        if isinstance(pat, ast.MatchClass) and not pat.patterns and not pat.kwd_patterns:
            return ast.Call(func=ast.Name(id='isinstance', ctx=ast.Load()), args=[st.subject, pat.cls], keywords=[])        # case dict(): / case list():
        if isinstance(pat, ast.MatchMapping) and all(isinstance(k_, ast.Constant) for k_ in pat.keys) \
                and all(isinstance(p_, ast.MatchValue) or (isinstance(p_, ast.MatchAs) and p_.pattern is None and p_.name is not None) for p_ in pat.patterns):
            # case {'a': x, 'b': 1, **rest}: the subject is a mapping with these keys (and the literal values); x and rest are bound in the body
            sub = st.subject
            conds = [ast.Compare(left=k_, ops=[ast.In()], comparators=[sub]) for k_ in pat.keys]
            binds = []
            for k_, p_ in zip(pat.keys, pat.patterns):
                item = ast.Subscript(value=sub, slice=k_, ctx=ast.Load())
                if isinstance(p_, ast.MatchValue): conds.append(ast.Compare(left=item, ops=[ast.Eq()], comparators=[p_.value]))
                else: binds.append(ast.Assign(targets=[ast.Name(id=p_.name, ctx=ast.Store())], value=item))
            if pat.rest is not None:
                comp_ = ast.DictComp(key=ast.Name(id='__k', ctx=ast.Load()), value=ast.Name(id='__v', ctx=ast.Load()),
                                     generators=[ast.comprehension(target=ast.Tuple(elts=[ast.Name(id='__k', ctx=ast.Store()), ast.Name(id='__v', ctx=ast.Store())], ctx=ast.Store()),
                                                                   iter=ast.Call(func=ast.Attribute(value=sub, attr='items', ctx=ast.Load()), args=[], keywords=[]),
                                                                   ifs=[ast.Compare(left=ast.Name(id='__k', ctx=ast.Load()), ops=[ast.NotIn()], comparators=[ast.Tuple(elts=list(pat.keys), ctx=ast.Load())])], is_async=0)])
                binds.append(ast.Assign(targets=[ast.Name(id=pat.rest, ctx=ast.Store())], value=comp_))
            body_binds[id(pat)] = binds
            return ast.BoolOp(op=ast.And(), values=conds) if len(conds) > 1 else (conds[0] if conds else ast.Constant(value=True))
        if isinstance(pat, ast.MatchAs) and pat.pattern is None and pat.name is None:
            return ast.Constant(value=True)         # case _ if guard:
        if isinstance(pat, ast.MatchAs) and pat.pattern is None and pat.name is not None:
            captures.append(pat.name)               # case x [if guard]: always matches, x is the subject
            return ast.Constant(value=True)
        if isinstance(pat, ast.MatchAs) and pat.pattern is not None and pat.name is not None:
            t_ = test(pat.pattern)
            if t_ is not None: captures.append(pat.name)
            return t_
        return None
    captures = []; body_binds = {}; case_binds = {}
    out = None; cur = None
    pre = []
    for case in st.cases:
        wildcard = isinstance(case.pattern, ast.MatchAs) and case.pattern.pattern is None and case.pattern.name is None
        if wildcard and case.guard is None:
            if cur is None: return list(case.body)
            cur.orelse = list(case.body); cur = None; break
        t = test(case.pattern)
        if t is None: return None
        cb_ = case_binds.get(id(case.pattern), {})
        guard_ = case.guard
        if guard_ is not None and cb_:
            class _Sub(ast.NodeTransformer):
                def visit_Name(self, n):
                    return cb_[n.id] if isinstance(n.ctx, ast.Load) and n.id in cb_ else n
            import copy as _copy
            guard_ = _Sub().visit(_copy.deepcopy(guard_))
        if cb_: body_binds[id(case.pattern)] = body_binds.get(id(case.pattern), []) + [ast.Assign(targets=[ast.Name(id=n_, ctx=ast.Store())], value=v_) for n_, v_ in cb_.items()]
        if guard_ is not None: t = guard_ if (isinstance(t, ast.Constant) and t.value is True) else ast.BoolOp(op=ast.And(), values=[t, guard_])
        node = ast.If(test=t, body=[ast.copy_location(b_, case.body[0]) for b_ in body_binds.get(id(case.pattern), [])] + list(case.body), orelse=[])
        ast.copy_location(node, case.body[0]); ast.fix_missing_locations(node)
        if out is None: out = node
        else: cur.orelse = [node]
        cur = node
    # capture names are bound to the subject before the chain (they are fresh names of the match statement)
    pre = [ast.fix_missing_locations(ast.copy_location(ast.Assign(targets=[ast.Name(id=n_, ctx=ast.Store())], value=st.subject), st)) for n_ in dict.fromkeys(captures)]
    return pre + ([out] if out is not None else [])


def _is_append(st):
    return isinstance(st, ast.Expr) and isinstance(st.value, ast.Call) and isinstance(st.value.func, ast.Attribute) and st.value.func.attr in ('append', 'add') \
        and len(st.value.args) == 1 and not st.value.keywords


def _touches_accumulator(st):
    """does the statement (an if) append / add / extend / update / store by subscript / continue / break / return / loop?"""
    for n in ast.walk(st):
        if isinstance(n, (ast.Continue, ast.Break, ast.Return, ast.For, ast.While, ast.Raise)): return True
        if isinstance(n, ast.Call) and isinstance(n.func, ast.Attribute) and n.func.attr in ('append', 'add', 'extend', 'update', 'remove', 'pop', 'insert'): return True
        if isinstance(n, (ast.Assign, ast.AugAssign)):
            for t in (n.targets if isinstance(n, ast.Assign) else [n.target]):
                if not isinstance(t, (ast.Name, ast.Tuple)): return True
    return False


def _iter_view(it):
    """what a loop / comprehension iterates: a defensive copy list(x) / tuple(x) / iter(x) iterates x"""
    while isinstance(it, Opq) and it.k and it.k[0] in ('list', 'tuple', 'iter') and len(it.k) == 2 and not (isinstance(it.k[1], Comp) and it.k[1].kind == 'set'):
        it = it.k[1]
    if isinstance(it, Opq) and len(it.k) >= 2 and it.k[0] in ('np.zeros', 'np.ones') and isinstance(it.k[1], Poly) and all(isinstance(x_, Opq) and x_.k[0] == 'kw' and x_.k[1] == 'dtype' for x_ in it.k[2:]):
        n_ = it.k[1].real_const()
        if n_ is not None and n_.denominator == 1 and 0 <= n_ <= 8: return [Poly.const(0 if it.k[0] == 'np.zeros' else 1)] * int(n_)      # iterating a short constant vector
    return it


def _is_empty_array(x, kind):
    """np.zeros / empty / ndarray with a literal 0 in the stacked dimension"""
    if not (isinstance(x, Opq) and x.k and x.k[0] in ('np.zeros', 'np.empty', 'np.ndarray')): return False
    sh = None
    for a in x.k[1:]:
        if isinstance(a, Opq) and a.k[0] == 'kw' and a.k[1] == 'shape': sh = a.k[2]
        elif not (isinstance(a, Opq) and a.k[0] == 'kw') and sh is None: sh = a
    if isinstance(sh, (tuple, list)) and sh:
        d = sh[0] if kind == 'vcat' else sh[-1]
        return isinstance(d, Poly) and d.is_zero()
    return False


def _product_args(it):
    """iterables of an itertools.product(...) term (repeat= expanded), else None; permutations(xs, 2) binds like product(xs, xs) (its pairs
    are those at different positions -- whoever needs that reads the generator term)"""
    if isinstance(it, Opq) and it.k and it.k[0] == 'product': return list(it.k[1:])
    if isinstance(it, Opq) and len(it.k) == 2 and it.k[0] in ('permutations', 'combinations'): return [it.k[1], it.k[1]]
    return None


def _pair_set(v):
    """(a, b) if v is the term of set((a, b)) / {a, b} with exactly two members"""
    if isinstance(v, Opq) and v.k and v.k[0] == 'set':
        items = v.k[1:]
        if len(items) == 1 and isinstance(items[0], (tuple, list)): items = tuple(items[0])
        if len(items) == 2: return items[0], items[1]
    return None


def _len_vs_const(d):
    """(sign, len-atom, integer constant) when d == sign * len(x) + constant with sign = +-1, else None"""
    if not isinstance(d, Poly): return None
    at_, sign_, c_ = None, None, 0
    for k, (re_, im_) in d.t.items():
        if im_ != 0: return None
        if k == ():
            if re_.denominator != 1: return None
            c_ = int(re_)
        elif len(k) == 1 and k[0][1] == 1 and isinstance(k[0][0], tuple) and k[0][0][:1] == ('len',) and re_ in (1, -1) and at_ is None:
            at_, sign_ = k[0][0], int(re_)
        else: return None
    return (sign_, at_, c_) if at_ is not None else None


def _is_boolterm(v):
    return isinstance(v, Opq) and bool(v.k) and v.k[0] in ('cmp', 'and', 'or', 'not', 'in', 'is', 'isfinite')


def _is_callable_term(v):
    """a term that can be applied: function / class reference, closure, bound-method atom, partial application, getter object, callable record"""
    if isinstance(v, (Closure, Ref)): return True
    if isinstance(v, Poly) and v.as_atom() is not None: return True
    if isinstance(v, Opq) and v.k and v.k[0] in ('partial', 'opget', 'dictmethod', 'listmethod', 'strmethod'): return True
    if isinstance(v, Rec) and v.clsref: return True
    return False


def _const_keyed(d):
    """every key of the dictionary term is a constant (string, number, constant polynomial)"""
    return all(isinstance(k, (str, int, bool)) or k is None or (isinstance(k, _HK) and isinstance(k.v, Poly) and k.v.is_const()) for k in d)


def _is_concrete(x):
    if isinstance(x, (str, bool, int)) or x is None: return True
    if isinstance(x, Poly): return x.is_const()
    if isinstance(x, (list, tuple)): return all(_is_concrete(y) for y in x)
    return False


class _HK:
    """hashable wrapper for non-constant dict keys"""
    def __init__(s, v): s.v = v
    def __repr__(s): return repr(s.v)
    def __hash__(s): return hash(repr(tkey(s.v)))
    def __eq__(s, o): return isinstance(o, _HK) and same(s.v, o.v)


class _Fall:
    def __repr__(s): return 'FALL'
    def key(s): return ('fall',)


FALL = None   # a block that falls off its end returns None in Python


def _exc_name(r):
    e = r.exc
    if e is None: return 're-raise'
    if isinstance(e, ast.Call): e = e.func
    return ast.unparse(e).split('.')[-1]


def _pk(k):
    return repr(k) if not isinstance(k, str) else k


def _chain_names(env):
    out = set()
    e = env
    while e is not None:
        out |= {k for k in e if k != '__parent__'}
        e = e.get('__parent__')
    return out


def _can_leave(stmts):
    for st in stmts:
        for n in ast.walk(st):
            if isinstance(n, (ast.Return, ast.Raise, ast.Break, ast.Continue)): return True
            if isinstance(n, (ast.FunctionDef, ast.Lambda)): break
    return False


def _always_raises(stmts):
    return bool(stmts) and isinstance(stmts[-1], ast.Raise) and not any(isinstance(n, ast.Return) for st in stmts for n in ast.walk(st))


def _load(t):
    import copy
    t2 = copy.deepcopy(t)
    for n in ast.walk(t2):
        if hasattr(n, 'ctx'): n.ctx = ast.Load()
    return t2


def _fork(env):
    """copy the chain of local scopes up to (not including) closure parents that are shared"""
    new = dict(env)
    return new


def _merge(env, g, e1, e2, s):
    """after an if without return on both sides, merge assignments into Cond terms (best effort)"""
    for k in set(e1) | set(e2):
        if k == '__parent__': continue
        a, b = e1.get(k, env.get(k)), e2.get(k, env.get(k))
        if a is b: env[k] = a
        elif a is None and k not in e1: env[k] = b
        elif b is None and k not in e2: env[k] = a
        else:
            try: env[k] = a if same(a, b) else s.mkcond(g, a, b)
            except Exception: env[k] = Opq('?', 'merge')


def _mul_sign(a, b):
    out = set()
    for x in a:
        for y in b:
            if x == '=0' or y == '=0': out.add('=0')
            elif x == y: out.add('>0')
            else: out.add('<0')
    return out


def _relevel(v, old, new):
    return v


# ====================================================================== comparison helpers
def paths_of(v, pc=(), _top=True):
    """flatten a Cond tree into [(frozenset of (guardkey, bool), leaf)]"""
    if _top: v = hoist(v)
    if isinstance(v, Cond):
        gk = repr(tkey(v.g))
        return paths_of(v.a, pc + ((gk, True),), False) + paths_of(v.b, pc + ((gk, False),), False)
    return [(frozenset(pc), v)]


def fold_numeric(p: Poly):
    """fold pi and rational powers of numbers into float coefficients: dict monomial -> complex"""
    import math
    out = {}
    for k, (a, b) in p.t.items():
        c = complex(float(a), float(b)); rest = []
        for at, e in k:
            if at == 'pi': c *= math.pi ** float(e)
            elif isinstance(at, tuple) and at and at[0] == 'num': c *= float(at[1]) ** float(e)
            else: rest.append((at, e))
        kk = tuple(rest)
        out[kk] = out.get(kk, 0) + c
    return {k: v for k, v in out.items() if abs(v) > 1e-300}


def poly_equal(a: Poly, b: Poly, tol=1e-12) -> bool:
    if a == b: return True
    fa, fb = fold_numeric(a), fold_numeric(b)
    if set(fa) != set(fb): return False
    return all(abs(fa[k] - fb[k]) <= tol * max(1.0, abs(fa[k]), abs(fb[k])) for k in fa)


def term_equal(a, b) -> bool:
    if isinstance(a, (Poly, int, F)) and isinstance(b, (Poly, int, F)) and not isinstance(a, bool) and not isinstance(b, bool):
        return poly_equal(as_poly(a), as_poly(b))
    if isinstance(a, Rec) and isinstance(b, Rec):
        return a.cls == b.cls and set(a.f) == set(b.f) and all(term_equal(a.f[k], b.f[k]) for k in a.f)
    if isinstance(a, (list, tuple)) and isinstance(b, (list, tuple)) and type(a) == type(b):
        return len(a) == len(b) and all(term_equal(x, y) for x, y in zip(a, b))
    if isinstance(a, Comp) and isinstance(b, Comp):
        return a.kind == b.kind and term_equal(a.elt, b.elt) and tkey([g for g in a.gens]) == tkey([g for g in b.gens]) if False else (
            a.kind == b.kind and term_equal(a.elt, b.elt) and len(a.gens) == len(b.gens) and
            all(same(x[0], y[0]) and sorted(map(lambda z: repr(tkey(z)), x[1])) == sorted(map(lambda z: repr(tkey(z)), y[1])) for x, y in zip(a.gens, b.gens)))
    return same(a, b)


def hoist(v, _depth=0):
    """lift conditionals out of records / tuples / lists / dict values:  Rec(f = g ? a : b)  ==  g ? Rec(f = a) : Rec(f = b)"""
    if _depth > 12: return v
    if isinstance(v, Cond):
        return Cond(v.g, hoist(v.a, _depth + 1), hoist(v.b, _depth + 1))
    if isinstance(v, Rec):
        for k, x in v.f.items():
            hx = hoist(x, _depth + 1)
            if isinstance(hx, Cond):
                fa = dict(v.f); fa[k] = hx.a; fb = dict(v.f); fb[k] = hx.b
                return hoist(Cond(hx.g, Rec(v.cls, fa, v.clsref), Rec(v.cls, fb, v.clsref)), _depth + 1)
        return v
    if isinstance(v, (tuple, list)):
        for i, x in enumerate(v):
            hx = hoist(x, _depth + 1)
            if isinstance(hx, Cond):
                a = list(v); a[i] = hx.a; b = list(v); b[i] = hx.b
                t = type(v)
                return hoist(Cond(hx.g, t(a), t(b)), _depth + 1)
        return v
    if isinstance(v, dict):
        for k, x in v.items():
            hx = hoist(x, _depth + 1)
            if isinstance(hx, Cond):
                a = dict(v); a[k] = hx.a; b = dict(v); b[k] = hx.b
                return hoist(Cond(hx.g, a, b), _depth + 1)
        return v
    return v


def _exclusive(d):
    """two equality guards taken True whose polynomials differ by a non-zero constant cannot hold together"""
    eqs = [g for g, v in d.items() if v is True and isinstance(g, tuple) and len(g) >= 4 and g[:3] == ('opq', 'cmp', 'Eq') and isinstance(g[3], tuple) and g[3] and g[3][0] == 'poly']
    for i in range(len(eqs)):
        for j in range(i + 1, len(eqs)):
            p, q = Poly(dict(eqs[i][3][1:])), Poly(dict(eqs[j][3][1:]))
            for dd in (p - q, p + q):
                c = dd.real_const()
                if c is not None and c != 0: return True
    return False


def _canon_guard(gk, val):
    """one spelling per test:  d > 0  is  not (-d >= 0)"""
    if isinstance(gk, tuple) and len(gk) == 4 and gk[:3] == ('opq', 'cmp', 'Gt') and isinstance(gk[3], tuple) and gk[3][:1] == ('poly',):
        return ('opq', 'cmp', 'GtE', Poly({m: c for m, c in gk[3][1:]}).neg().key()), not val
    return gk, val


def paths_keyed(v, pc=(), _top=True):
    if _top: v = hoist(v)
    if isinstance(v, Cond):
        gk = tkey(v.g)
        return paths_keyed(v.a, pc + (_canon_guard(gk, True),), False) + paths_keyed(v.b, pc + (_canon_guard(gk, False),), False)
    return [(dict(pc), v)]


def compare_terms(code, spec, total=False):
    """three-valued comparison of two (Cond-tree) terms.
    True   every pair of jointly satisfiable paths has equal leaves
    False  some jointly satisfiable pair of paths (no guard with opposite polarity, no two exclusive equalities) has different, fully
           interpreted leaves -- guards that are distinct atoms are taken to be independent
    None   otherwise (opaque parts)"""
    pc, ps = paths_keyed(code), paths_keyed(spec)
    verdict = True
    for d1, l1 in pc:
        for d2, l2 in ps:
            if any(d1[k] != d2[k] for k in d1 if k in d2): continue        # inconsistent
            both = dict(d1); both.update(d2)
            if _exclusive(both): continue
            if term_equal(l1, l2) or term_equal(_eta(l1), _eta(l2)): continue
            if has_opaque(l1) or has_opaque(l2) or any(has_opaque_key(k) for k in both):
                verdict = None if verdict is not False else False
                continue
            if structural_heads(tkey(l1)) != structural_heads(tkey(l2)):
                # the two sides are built with different uninterpreted constructs (another library function, a comprehension against an index
                # selection, a helper object ...): unequal normal forms do not show unequal values -- not decided
                verdict = None if verdict is not False else False
                continue
            return False
    return verdict


_STRUCTURAL_OPQ = {'list', 'tuple', 'set', 'sorted', 'iter', 'loop', 'mutated', 'dispatch', 'dispatchcall', 'partial', 'product', 'build', 'hcat', 'vcat', 'rows',
                   'concat', 'zip', 'enumerate', 'map', 'filter', 'reversed', 'range', 'item', 'keys', 'values', 'items', 'dictmethod', 'listmethod', 'strmethod',
                   'attr', 'bitop', 'fstr', 'next', 'any', 'all', 'min', 'max', 'Σ', 'strcat', 'fmt', 'return-if', 'st'}


def structural_heads(k, out=None):
    """sorted multiset of the UNINTERPRETED constructs a key is built with: comprehensions, library functions the evaluator has no normal form
    for, external calls, calls of unknown callables, structural operators.  Interpreted parts (polynomial arithmetic, attribute / item paths,
    comparisons, conditionals, records, the elementary functions with normal forms) do not count."""
    top = out is None
    if top: out = []
    if isinstance(k, tuple) and k:
        h = k[0]
        if h == 'poly':
            for mc in k[1:]:
                if isinstance(mc, tuple) and len(mc) == 2 and isinstance(mc[0], tuple):
                    for ae in mc[0]:
                        if isinstance(ae, tuple) and len(ae) == 2 and isinstance(ae[0], tuple): structural_heads(ae[0], out)
            return sorted(out) if top else out
        if h == 'rec' and len(k) == 3 and isinstance(k[2], tuple):
            for fv in k[2]:
                if isinstance(fv, tuple) and len(fv) == 2: structural_heads(fv[1], out)
            return sorted(out) if top else out
        if h == 'dict' and len(k) == 2 and isinstance(k[1], tuple):
            for fv in k[1]:
                if isinstance(fv, tuple) and len(fv) == 2:
                    structural_heads(fv[0], out); structural_heads(fv[1], out)
            return sorted(out) if top else out
        if h == 'call' and len(k) == 4:
            if isinstance(k[1], tuple) and k[1][:1] == ('ext',): out.append('call:' + str(k[1][1]))
            elif isinstance(k[1], str): out.append('call:?')
            else: structural_heads(k[1], out)
            for a_ in k[2]: structural_heads(a_, out)
            for fv in k[3]:
                if isinstance(fv, tuple) and len(fv) == 2: structural_heads(fv[1], out)
            return sorted(out) if top else out
        if h == 'comp': out.append('comp:' + str(k[1]))
        elif h == 'opq' and len(k) > 1 and isinstance(k[1], str):
            if k[1].startswith('np.') or k[1] in _STRUCTURAL_OPQ: out.append('opq:' + k[1])
        elif h == 'call' and len(k) == 4 and isinstance(k[1], tuple) and k[1][:1] == ('ext',): out.append('call:' + str(k[1][1]))
        elif h == 'call' and len(k) == 4 and isinstance(k[1], str): out.append('call:?')
        elif isinstance(h, str) and h not in _INTERPRETED_HEADS and len(k) >= 2 and h.isidentifier() and isinstance(k[1], tuple):
            out.append('fn:' + h)
        for x in k[1:]: structural_heads(x, out)
    return sorted(out) if top else out


_INTERPRETED_HEADS = {'poly', 'cond', 'opq', 'rec', 'tuple', 'list', 'dict', 'set', 'call', '.', '[]', 'β', 'idx', 'keyof', 'valof', 'slice', 'T', 'abs', 'real', 'imag',
                      'angle', 'floor', 'ceil', 'round', 'mod', 'exp', 'cos', 'sin', 'sqrt', 'conj', 'int', 'num', 'len', 'matmul', 'inv', 'carried', 'sentinel', 'ref',
                      'closure', 'obj', 'kw', 'comp', 'cmp', 'and', 'or', 'not', 'in', 'is', 'arange', 'ndigits', 'decimals',
                      # elementary functions known to be different functions (no normal form, but a different name is a different value)
                      'fmod', 'trunc', 'sign', 'tan', 'arctan', 'arctan2', 'arcsin', 'arccos', 'log', 'log10', 'log2', 'hypot', 'square', 'reciprocal',
                      'degrees', 'radians', 'isclose', 'isnan', 'isfinite'}


def _eta(v):
    """C(f1=x.f1, ..., fn=x.fn) with all the fields of one object x  ==  x   (value semantics of the package's frozen records)"""
    if isinstance(v, Rec) and v.f:
        base = None
        for name, val in v.f.items():
            at = val.as_atom() if isinstance(val, Poly) else None
            if not (isinstance(at, tuple) and len(at) == 3 and at[0] == '.' and at[2] == name): return v
            if base is None: base = at[1]
            elif base != at[1]: return v
        if isinstance(base, (str, tuple)) and not (isinstance(base, tuple) and base[:1] == ('poly',)): return Poly.atom(base)
        if isinstance(base, tuple) and base[:1] == ('poly',): return Poly({m: c for m, c in base[1:]})
    if isinstance(v, tuple): return tuple(_eta(x) for x in v)
    return v


DROPPED = Opq('dropped')


def compare_comps(code, spec):
    """three-valued: two single-generator comprehensions over the same iterable agree element by element -- an element passes both filters or
    neither, and what is produced for a kept element is equal (filters and element are compared as one decision tree per element)"""
    if not (isinstance(code, Comp) and isinstance(spec, Comp)) or len(code.gens) != 1 or len(spec.gens) != 1 or code.kind != spec.kind:
        if term_equal(code, spec): return True
        return None if has_opaque(code) or not isinstance(code, Comp) else False
    if not term_equal(code.gens[0][0], spec.gens[0][0]):
        return None if has_opaque(code.gens[0][0]) else False
    def tree(c):
        t = c.elt if not isinstance(c.elt, (tuple, list)) else tuple(c.elt)
        for f in reversed(c.gens[0][1]):
            t = _cond_of(f, t, DROPPED)
        return t
    return compare_terms(tree(code), tree(spec))


def _cond_of(g, a, b):
    """g ? a : b with and / or / not guards unfolded into nested decisions (no evaluator needed)"""
    if g is True: return a
    if g is False: return b
    if isinstance(g, Cond): return Cond(g.g, _cond_of(g.a, a, b), _cond_of(g.b, a, b))
    if isinstance(g, Opq) and g.k and g.k[0] == 'not': return _cond_of(g.k[1], b, a)
    if isinstance(g, Opq) and g.k and g.k[0] == 'and':
        t = a
        for x in reversed(g.k[1:]): t = _cond_of(x, t, b)
        return t
    if isinstance(g, Opq) and g.k and g.k[0] == 'or':
        t = b
        for x in reversed(g.k[1:]): t = _cond_of(x, a, t)
        return t
    if isinstance(g, Opq) and g.k and g.k[0] == 'cmp' and g.k[1] == 'NotEq': return Cond(Opq('cmp', 'Eq', *g.k[2:]), b, a)
    return Cond(g, a, b)


def has_opaque_key(k):
    if isinstance(k, tuple):
        if k and k[0] == '?': return True
        if len(k) > 1 and k[0] == 'opq' and k[1] in OPAQUE_TAGS: return True
        return any(has_opaque_key(x) for x in k)
    return False
