"""E3 -- ownership / effect analysis: which functions may write to an object owned by a parameter, a default, or a module global.

Flow-sensitive origin sets per local name; deep ownership (attributes, subscripts, iteration elements, .get/.pop/.values() results stay
owned by the container); interprocedural summaries (mutated parameters, returned-parameter aliases) iterated to a fixpoint over the
call graph, including calls through dispatch tables, default callables and functools.partial objects.
"""
from __future__ import annotations
import ast
from dataclasses import dataclass, field
from .prog import Program, Func, Module, params_of

MUT_METHODS = {'pop', 'append', 'update', 'remove', 'sort', 'extend', 'clear', 'insert', 'setdefault', 'add', 'discard', 'popitem',
               'reverse', '__setitem__', '__delitem__', 'fill', 'resize', 'put', 'itemset', 'setflags', 'partition', 'byteswap'}
ELEMENT_METHODS = {'pop', 'get', 'values', 'keys', 'items', 'setdefault', 'popitem', '__getitem__', 'copy_ref'}
FRESH_BUILTINS = {'list', 'dict', 'set', 'sorted', 'tuple', 'str', 'float', 'int', 'complex', 'len', 'enumerate', 'zip', 'bool', 'abs',
                  'sum', 'min', 'max', 'range', 'repr', 'frozenset', 'any', 'all', 'round', 'type', 'isinstance', 'id', 'hash', 'print',
                  'map', 'filter', 'reversed', 'iter', 'next', 'open', 'format', 'divmod', 'pow', 'hasattr', 'callable', 'bytes'}
# containers built from another container hold the SAME elements: list(x)/dict(x)/sorted(x)/tuple(x) are fresh shells (shallow)
SHELL_BUILTINS = {'list', 'dict', 'set', 'sorted', 'tuple', 'reversed', 'enumerate', 'zip', 'frozenset', 'iter', 'filter', 'map'}
IMMUTABLE_ANN = {'float', 'int', 'complex', 'str', 'bool', 'bytes', 'None'}
CACHE_DECOS = {'lru_cache', 'cache', 'cached_property', 'memoize', 'functools.lru_cache', 'functools.cache', 'functools.cached_property'}
INIT_METHODS = {'__init__', '__post_init__', '__new__', 'setup'}


@dataclass
class Site:
    rel: str
    line: int
    how: str
    text: str
    via: tuple = ()

    def __str__(s):
        v = f" via {' -> '.join(s.via)}" if s.via else ''
        return f"{s.rel}:{s.line} {s.how} `{s.text}`{v}"


@dataclass
class Summary:
    mut: dict = field(default_factory=dict)        # param name (or '**name' for elements of the ** mapping) -> Site (first found)
    ret: set = field(default_factory=set)          # params the return value may alias (deep or shell)
    ret_shell: set = field(default_factory=set)    # params whose ELEMENTS the return value may hold (fresh shell)
    globals_w: dict = field(default_factory=dict)  # (modshort, name) -> Site
    self_w: dict = field(default_factory=dict)     # attribute name -> Site   (writes through self outside init methods)

    def sig(s):
        return (tuple(sorted(s.mut)), tuple(sorted(s.ret)), tuple(sorted(s.ret_shell)), tuple(sorted(s.globals_w)), tuple(sorted(s.self_w)))


def construction_only_methods(prog):
    """qualified names of private methods that are reachable only from the initialiser of their own class (directly or through other such
    methods) and are mentioned nowhere else in the package: they are construction code"""
    by_cls = {}
    for q, f in prog.funcs.items():
        if f.cls is not None and f.parent is None and isinstance(f.node, ast.FunctionDef): by_cls.setdefault((f.mod.name, f.cls.name), {})[f.node.name] = (q, f)
    out = set()
    for (mn, cn), meths in by_cls.items():
        calls = {n_: {x.func.attr for x in ast.walk(f.node) if isinstance(x, ast.Call) and isinstance(x.func, ast.Attribute) and isinstance(x.func.value, ast.Name)
                      and x.func.value.id == (params_of(f.node)[0] or ['self'])[0] and x.func.attr in meths} for n_, (q, f) in meths.items()}
        cand = {n_ for n_ in meths if n_.startswith('_') and not n_.startswith('__')}
        changed = True
        ok = set()
        while changed:
            changed = False
            for n_ in sorted(cand - ok):
                callers = {c_ for c_, cs in calls.items() if n_ in cs and c_ != n_}
                if callers and all(c_ in INIT_METHODS or c_ in ok for c_ in callers): ok.add(n_); changed = True
        for n_ in sorted(ok):
            # mentioned anywhere else (another class, a free function, a bound-method value)?  then it is not construction-only
            elsewhere = False
            for q2, f2 in prog.funcs.items():
                if f2.cls is not None and (f2.mod.name, f2.cls.name) == (mn, cn) and getattr(f2.node, 'name', '') in (INIT_METHODS | ok): continue
                if any(isinstance(x, ast.Attribute) and x.attr == n_ for x in ast.walk(f2.node)): elsewhere = True; break
            if not elsewhere: out.add(meths[n_][0])
    return out



class Effects:
    def __init__(s, prog: Program):
        s.prog = prog
        s.summ: dict[str, Summary] = {q: Summary() for q in prog.funcs}
        s.by_method: dict[str, list[str]] = {}
        for q, f in prog.funcs.items():
            if f.cls is not None and isinstance(f.node, ast.FunctionDef):
                s.by_method.setdefault(f.node.name, []).append(q)
        s.node2qual = {id(f.node): q for q, f in prog.funcs.items()}
        s.by_property: dict[str, list[str]] = {}
        for q, f in prog.funcs.items():
            if f.cls is not None and isinstance(f.node, ast.FunctionDef) and prog.is_property(f.node):
                s.by_property.setdefault(f.node.name, []).append(q)
        s.partial_bindings = s._collect_partials()
        s.construction_only = construction_only_methods(prog)
        s.iterations = 0

    # ------------------------------------------------------------------ partial(f, kw=g) bindings found anywhere in the package
    def _collect_partials(s):
        out: dict[tuple[str, str], set[str]] = {}
        for m in s.prog.modules.values():
            for n in ast.walk(m.tree):
                if isinstance(n, ast.Call) and ast.unparse(n.func).split('.')[-1] == 'partial' and n.args:
                    tgt = s.resolve_callable(m, n.args[0], {})
                    for k in n.keywords:
                        if k.arg is None: continue
                        for b in s.resolve_callable(m, k.value, {}):
                            for t in tgt: out.setdefault((t, k.arg), set()).add(b)
        return out

    # ------------------------------------------------------------------ callee resolution
    def resolve_callable(s, m: Module, e, local_fns, _seen=None) -> set[str]:
        """set of function qualnames an expression may denote"""
        _seen = _seen or set()
        if isinstance(e, ast.Lambda):
            q = s.node2qual.get(id(e)); return {q} if q else set()
        if isinstance(e, ast.Name) and e.id in local_fns:
            return set(local_fns[e.id])
        if isinstance(e, ast.Subscript):       # table[key]
            r = s.prog.resolve_expr(m, e.value) if isinstance(e.value, (ast.Name, ast.Attribute)) else None
            if r and r[0] == 'var' and isinstance(r[2], ast.Dict):
                out = set()
                for v in r[2].values: out |= s.resolve_callable(r[1], v, {}, _seen)
                return out
            return set()
        if isinstance(e, ast.Call) and ast.unparse(e.func).split('.')[-1] == 'partial' and e.args:
            return s.resolve_callable(m, e.args[0], local_fns, _seen)
        if isinstance(e, (ast.Name, ast.Attribute)):
            r = s.prog.resolve_expr(m, e)
            if r is None: return set()
            if r[0] == 'func':
                q = s.node2qual.get(id(r[2])); return {q} if q else set()
            if r[0] == 'class':
                out = set()
                for nm in ('__init__', '__post_init__'):
                    mem = s.prog.find_member(r[1], r[2], nm)
                    if mem and isinstance(mem[1], ast.FunctionDef):
                        q = s.node2qual.get(id(mem[1]))
                        if q: out.add(q)
                return out
            if r[0] == 'member' and isinstance(r[2], ast.FunctionDef):
                q = s.node2qual.get(id(r[2])); return {q} if q else set()
            if r[0] == 'var':
                key = (r[1].name, r[3])
                if key in _seen: return set()
                return s.resolve_callable(r[1], r[2], {}, _seen | {key})
        return set()

    # ------------------------------------------------------------------ fixpoint
    def run(s, max_iter=12):
        for i in range(max_iter):
            s.iterations = i + 1
            before = {q: sm.sig() for q, sm in s.summ.items()}
            for q, f in s.prog.funcs.items():
                if f.parent is not None: continue         # nested functions are analysed inside their parent
                s.analyse(f)
            if before == {q: sm.sig() for q, sm in s.summ.items()}:
                break
        return s

    # ------------------------------------------------------------------ one function
    def analyse(s, f: Func):
        node = f.node
        pos, defaults, vararg, kwarg, kwonly, kwdefaults = params_of(node)
        env = {p: {('P', p)} for p in pos + kwonly}
        if vararg: env[vararg] = {('P', vararg)}
        if kwarg: env[kwarg] = {('K', kwarg)}      # fresh dict whose ELEMENTS belong to the caller's ** mapping
        ann = {a.arg: (ast.unparse(a.annotation) if a.annotation is not None else None) for a in node.args.posonlyargs + node.args.args + node.args.kwonlyargs}
        cls_defaults = {}
        ctx = _Ctx(s, f, env, ann)
        body = [ast.Expr(node.body)] if isinstance(node, ast.Lambda) else node.body
        if isinstance(node, ast.Lambda):
            ctx.ret_origin |= ctx.origin(node.body)
            ctx.ret_shell |= ctx.shell(node.body)
        ctx.walk(body)
        sm = s.summ[f.qual]
        for p, site in ctx.mut.items(): sm.mut.setdefault(p, site)
        for o in ctx.ret_origin:
            if o[0] in ('P',): sm.ret.add(o[1])
            if o[0] == 'K': sm.ret.add('**' + o[1])
            if o[0] == 'E': sm.ret_shell.add('**' + o[1])
        for o in ctx.ret_shell:
            if o[0] == 'P': sm.ret_shell.add(o[1])
            if o[0] in ('E', 'K'): sm.ret_shell.add('**' + o[1])
        for g, site in ctx.glob.items(): sm.globals_w.setdefault(g, site)
        for a, site in ctx.selfw.items(): sm.self_w.setdefault(a, site)


class _Ctx:
    def __init__(c, eff: Effects, f: Func, env, ann, depth=0, via=()):
        c.eff, c.f, c.env, c.ann, c.depth, c.via = eff, f, env, ann, depth, via
        c.mut: dict = {}; c.glob: dict = {}; c.selfw: dict = {}
        c.ret_origin: set = set(); c.ret_shell: set = set()
        c.local_fns: dict = {}            # nested def name -> FunctionDef
        c.local_callables: dict = {}      # local var -> set of qualnames
        c.shells: dict = {}               # local name -> origins whose elements the (fresh) container holds
        c.globals_decl: set = set()
        c.fresh_fields: set = set()        # self.<attr> assigned a fresh object earlier in this method
        c.is_method = f.cls is not None and isinstance(f.node, ast.FunctionDef)
        c.self_name = (params_of(f.node)[0] or [None])[0] if c.is_method and not any(d in ('staticmethod',) for d in eff.prog.decorators(f.node)) else None

    # ---- origins
    def origin(c, e) -> set:
        """objects the value of e may BE (deep: parts of an owned object are owned)"""
        if e is None: return set()
        if isinstance(e, ast.Name):
            if e.id in c.env: return set(c.env[e.id])
            r = c.eff.prog.resolve(c.f.mod, e.id)
            if r and r[0] == 'var': return {('G', r[1].short, r[3])}
            return set()
        if isinstance(e, ast.Attribute):
            if isinstance(e.value, ast.Name) and e.value.id not in c.env:
                r = c.eff.prog.resolve_expr(c.f.mod, e)
                if r and r[0] == 'var': return {('G', r[1].short, r[3])}
            props = c.eff.by_property.get(e.attr)
            if props:
                # attribute implemented as @property in the package: its value is what the property returns
                out = set()
                base = c.origin(e.value)
                for q in props:
                    sm = c.eff.summ[q]; selfp = (params_of(c.eff.prog.funcs[q].node)[0] or ['self'])[0]
                    if selfp in sm.ret: out |= base
                return out
            return c.origin(e.value)
        if isinstance(e, ast.Subscript): return c.elements(e.value)
        if isinstance(e, ast.Starred): return c.origin(e.value)
        if isinstance(e, ast.IfExp): return c.origin(e.body) | c.origin(e.orelse)
        if isinstance(e, ast.BoolOp):
            out = set()
            for v in e.values: out |= c.origin(v)
            return out
        if isinstance(e, ast.NamedExpr): return c.origin(e.value)
        if isinstance(e, ast.Await): return c.origin(e.value)
        if isinstance(e, ast.Call): return c.call_origin(e)[0]
        return set()

    def elements(c, e) -> set:
        """objects that ELEMENTS of the container e may be"""
        o = set()
        for x in c.origin(e):
            o.add(('E', x[1]) if x[0] == 'K' else x)       # element of **kwargs belongs to the caller's mapping
        if isinstance(e, ast.Name): o |= c.shells.get(e.id, set())
        else: o |= c.shell(e)
        return o

    def shell(c, e) -> set:
        """origins whose elements a FRESH container expression holds"""
        if isinstance(e, ast.Name): return set(c.shells.get(e.id, set()))
        if isinstance(e, (ast.List, ast.Tuple, ast.Set)):
            out = set()
            for x in e.elts: out |= c.origin(x) | (c.shell(x) if isinstance(x, ast.Starred) else set())
            return out
        if isinstance(e, ast.Dict):
            out = set()
            for k, v in zip(e.keys, e.values):
                out |= c.origin(v) if k is not None else c.elements(v)
            return out
        if isinstance(e, (ast.ListComp, ast.SetComp, ast.GeneratorExp, ast.DictComp)):
            sub = c.comp_ctx(e)
            elt = e.value if isinstance(e, ast.DictComp) else e.elt
            return sub.origin(elt)
        if isinstance(e, ast.Attribute) and c.eff.by_property.get(e.attr):
            out = set(); base = c.origin(e.value)
            for q in c.eff.by_property[e.attr]:
                sm = c.eff.summ[q]; selfp = (params_of(c.eff.prog.funcs[q].node)[0] or ['self'])[0]
                if selfp in sm.ret_shell or selfp in sm.ret: out |= base
            return out
        if isinstance(e, ast.IfExp): return c.shell(e.body) | c.shell(e.orelse)
        if isinstance(e, ast.BinOp) and isinstance(e.op, ast.Add): return c.shell(e.left) | c.shell(e.right) | c.elements_if_container(e.left) | c.elements_if_container(e.right)
        if isinstance(e, ast.Call): return c.call_origin(e)[1]
        if isinstance(e, ast.Starred): return c.elements(e.value)
        return set()

    def elements_if_container(c, e):
        return c.elements(e) if isinstance(e, (ast.Name, ast.Attribute, ast.Subscript)) else set()

    def comp_ctx(c, e):
        sub = _Ctx(c.eff, c.f, dict(c.env), c.ann, c.depth, c.via)
        sub.shells = dict(c.shells); sub.local_fns = c.local_fns; sub.local_callables = c.local_callables
        sub.mut, sub.glob, sub.selfw = c.mut, c.glob, c.selfw
        sub.fresh_fields = c.fresh_fields
        for g in e.generators:
            o = sub.elements(g.iter)
            for el in ast.walk(g.target):
                if isinstance(el, ast.Name): sub.env[el.id] = set(o)
        return sub

    # ---- calls
    def callees(c, call: ast.Call) -> set[str]:
        fn = call.func
        if isinstance(fn, ast.Name):
            if fn.id in c.local_fns: return set()
            if fn.id in c.local_callables: return set(c.local_callables[fn.id])
            if fn.id in c.env:
                # call through a parameter: default value + partial bindings
                out = set()
                pos, defaults, _, _, kwonly, kwdefaults = params_of(c.f.node)
                dmap = dict(zip(pos[len(pos) - len(defaults):], defaults)); dmap.update({k: v for k, v in zip(kwonly, kwdefaults) if v is not None})
                if fn.id in dmap: out |= c.eff.resolve_callable(c.f.mod, dmap[fn.id], {})
                out |= c.eff.partial_bindings.get((c.f.qual, fn.id), set())
                return out
            return c.eff.resolve_callable(c.f.mod, fn, {})
        if isinstance(fn, ast.Subscript):
            return c.eff.resolve_callable(c.f.mod, fn, {})
        if isinstance(fn, ast.Attribute):
            r = c.eff.resolve_callable(c.f.mod, fn, {})
            if r: return r
            # self.method / self.field(default callable)
            if isinstance(fn.value, ast.Name) and fn.value.id == c.self_name and c.f.cls is not None:
                mem = c.eff.prog.find_member(c.f.mod, c.f.cls, fn.attr)
                if mem and isinstance(mem[1], ast.FunctionDef):
                    q = c.eff.node2qual.get(id(mem[1])); return {q} if q else set()
                if mem and isinstance(mem[1], ast.AnnAssign) and mem[1].value is not None:
                    v = mem[1].value
                    if isinstance(v, ast.Call) and ast.unparse(v.func).split('.')[-1] == 'field':
                        kw = {k.arg: k.value for k in v.keywords}
                        v = kw.get('default')
                    if v is not None: return c.eff.resolve_callable(mem[0], v, {})
                return set()
            # method of an object of unknown class: class-hierarchy style resolution by name inside the package
            if fn.attr not in MUT_METHODS and fn.attr not in ('get', 'keys', 'values', 'items', 'copy', 'index', 'count', 'join', 'split', 'strip', 'format', 'real', 'conjugate'):
                return set(c.eff.by_method.get(fn.attr, []))
        return set()

    def call_origin(c, call: ast.Call):
        """(origins the result may BE, origins whose ELEMENTS the result may hold)"""
        fn = call.func
        name = fn.id if isinstance(fn, ast.Name) else (fn.attr if isinstance(fn, ast.Attribute) else None)
        if isinstance(fn, ast.Name) and fn.id in c.local_fns:
            return c.inline_local(fn.id, call)
        if isinstance(fn, ast.Name) and name in FRESH_BUILTINS and name not in c.env:
            if name in SHELL_BUILTINS:
                sh = set()
                for a in call.args: sh |= c.elements(a)
                return set(), sh
            return set(), set()
        if isinstance(fn, ast.Attribute):
            if fn.attr in ('copy',) and not call.args: return set(), c.elements(fn.value)
            if fn.attr == 'deepcopy': return set(), set()
            if fn.attr in ('pop', 'get', 'setdefault', 'popitem', '__getitem__'): return c.elements(fn.value), set()
            if fn.attr in ('values', 'keys', 'items'): return set(), c.elements(fn.value)
            if fn.attr in ('union', 'intersection', 'difference'): return set(), c.elements(fn.value)
            if fn.attr in ('at', 'right', 'left', 'up', 'down', 'label', 'theta') and False: return c.origin(fn.value), set()
        qs = c.callees(call)
        is_deepcopy = name == 'deepcopy'
        if is_deepcopy: return set(), set()
        out, sh = set(), set()
        for q in qs:
            sm = c.eff.summ.get(q)
            f2 = c.eff.prog.funcs[q]
            for p, arg, star in c.bind(f2, call):
                if p in sm.ret: out |= (c.elements(arg) if star == '**' else c.origin(arg))
                if p in sm.ret_shell: sh |= (c.elements(arg) if star in ('**', '*') else (c.elements(arg)))
                if star == '**' and ('**' + (params_of(f2.node)[3] or '')) in sm.ret: sh |= c.elements(arg)
            if f2.cls is not None and f2.node.name in ('__init__', '__post_init__'):
                # constructor call: the new object holds its arguments
                for a in list(call.args) + [k.value for k in call.keywords]: sh |= c.origin(a)
        if not qs and isinstance(fn, (ast.Name, ast.Attribute)):
            r = c.eff.prog.resolve_expr(c.f.mod, fn)
            if r and r[0] == 'class':
                for a in list(call.args) + [k.value for k in call.keywords]: sh |= c.origin(a)
        return out, sh

    def bind(c, f2: Func, call: ast.Call):
        """yield (callee param name, argument expression, star-kind)"""
        pos, defaults, vararg, kwarg, kwonly, _ = params_of(f2.node)
        offset = 0
        if f2.cls is not None and isinstance(f2.node, ast.FunctionDef) and pos and not any(d == 'staticmethod' for d in c.eff.prog.decorators(f2.node)):
            # bound call: receiver is the first parameter
            if isinstance(call.func, ast.Attribute):
                r = c.eff.prog.resolve_expr(c.f.mod, call.func.value) if isinstance(call.func.value, (ast.Name, ast.Attribute)) else None
                if not (r and r[0] in ('class', 'mod')):
                    yield (pos[0], call.func.value, ''); offset = 1
            elif f2.node.name in ('__init__', '__post_init__'):
                offset = 1
        i = offset
        for a in call.args:
            if isinstance(a, ast.Starred):
                for p in pos[i:]: yield (p, a.value, '*')
                if vararg: yield (vararg, a.value, '*')
                i = len(pos)
            else:
                if i < len(pos): yield (pos[i], a, '')
                elif vararg: yield (vararg, a, '')
                i += 1
        for k in call.keywords:
            if k.arg is None:
                for p in pos + kwonly: yield (p, k.value, '**')
                if kwarg: yield ('**' + kwarg, k.value, '**')
            elif k.arg in pos or k.arg in kwonly:
                yield (k.arg, k.value, '')
            elif kwarg:
                yield ('**' + kwarg, k.value, 'kwval')

    def inline_local(c, name, call):
        fn = c.local_fns[name]
        if c.depth > 4: return set(), set()
        pos, defaults, vararg, kwarg, kwonly, _ = params_of(fn)
        env = dict(c.env)
        for p in pos + kwonly: env[p] = set()
        for p, a in zip(pos, call.args): env[p] = c.origin(a)
        for k in call.keywords:
            if k.arg in pos or k.arg in kwonly: env[k.arg] = c.origin(k.value)
        sub = _Ctx(c.eff, c.f, env, c.ann, c.depth + 1, c.via + (name,))
        sub.local_fns = c.local_fns; sub.local_callables = c.local_callables; sub.shells = dict(c.shells)
        sub.mut, sub.glob, sub.selfw = c.mut, c.glob, c.selfw
        sub.walk(fn.body)
        return sub.ret_origin, sub.ret_shell

    # ---- mutation events
    def site(c, node, how) -> Site:
        return Site(c.f.mod.rel, getattr(node, 'lineno', 0), how, ast.unparse(node)[:90].replace('\n', ' '), c.via)

    def mutate(c, target_expr, node, how, elements=False):
        # self.<fresh field>.append(...) / self.<fresh field>[k] = v : the object was created by this method, not supplied by the caller
        base = target_expr
        while isinstance(base, (ast.Subscript,)): base = base.value
        if isinstance(base, ast.Attribute) and isinstance(base.value, ast.Name) and base.value.id == c.self_name and base.attr in c.fresh_fields and not elements:
            return
        origins = c.elements(target_expr) if elements else c.origin(target_expr)
        for o in origins:
            c.record(o, node, how)

    def record(c, o, node, how):
        if o[0] == 'P':
            if o[1] == c.self_name and c.is_method:
                # writes through self: allowed in init methods (object under construction)
                is_init_ = c.f.node.name in INIT_METHODS or c.eff.node2qual.get(id(c.f.node)) in c.eff.construction_only
                if is_init_ and how == 'store' and isinstance(node, (ast.Assign, ast.AnnAssign, ast.AugAssign)) and _direct_self_store(node, c.self_name): return
                if is_init_ and c.f.cls is not None and not c.eff.prog.is_dataclass(c.f.cls): return    # hand-written __init__ builds its own fields
                c.selfw.setdefault(how + ':' + ast.unparse(node)[:40], c.site(node, how)); c.mut.setdefault(o[1], c.site(node, how)); return
            c.mut.setdefault(o[1], c.site(node, how))
        elif o[0] == 'E':
            c.mut.setdefault('**' + o[1], c.site(node, how))
        elif o[0] == 'G':
            c.glob.setdefault((o[1], o[2]), c.site(node, how))
        # 'K' (the fresh ** dict itself): harmless

    def check_call(c, call: ast.Call):
        fn = call.func
        if isinstance(fn, ast.Attribute) and fn.attr in MUT_METHODS:
            # container mutation unless the receiver resolves to a package function/module
            r = c.eff.prog.resolve_expr(c.f.mod, fn.value) if isinstance(fn.value, (ast.Name, ast.Attribute)) and not (isinstance(fn.value, ast.Name) and fn.value.id in c.env) else None
            if not (r and r[0] in ('mod', 'class', 'func', 'ext')):
                c.mutate(fn.value, call, f'.{fn.attr}()')
        if isinstance(fn, ast.Name) and fn.id in ('setattr', 'delattr') and call.args:
            c.mutate(call.args[0], call, fn.id + '()')
        if isinstance(fn, ast.Attribute) and fn.attr in ('__setattr__', '__delattr__') and call.args:
            c.mutate(call.args[0], call, fn.attr + '()')
        if isinstance(fn, ast.Name) and fn.id in c.local_fns:
            c.inline_local(fn.id, call); return
        for q in c.callees(call):
            sm = c.eff.summ.get(q); f2 = c.eff.prog.funcs[q]
            if not sm: continue
            for p, arg, star in c.bind(f2, call):
                if p in sm.mut:
                    how = f'call {q} (writes its `{p}` at {sm.mut[p].rel}:{sm.mut[p].line})'
                    if star == '**' and not p.startswith('**'):
                        c.mutate(arg, call, how, elements=True)       # named param bound from an element of the ** mapping
                    elif p.startswith('**'):
                        # callee writes to elements of its ** mapping: elements of d (for **d) or the value itself (for k=v)
                        c.mutate(arg, call, how, elements=(star == '**'))
                    else:
                        c.mutate(arg, call, how, elements=(star == '*'))
            for g, st in sm.globals_w.items():
                c.glob.setdefault(g, Site(st.rel, st.line, st.how, st.text, (q,) + tuple(st.via)))

    def calls_in(c, node):
        """Call nodes inside an expression/statement, not descending into nested function definitions or lambdas"""
        out = []
        def go(n):
            if isinstance(n, (ast.FunctionDef, ast.Lambda)) and n is not node: return
            if isinstance(n, ast.Call): out.append(n)
            for ch in ast.iter_child_nodes(n): go(ch)
        go(node)
        return out

    def comps_in(c, node):
        out = []
        def go(n):
            if isinstance(n, (ast.FunctionDef, ast.Lambda)) and n is not node: return
            if isinstance(n, (ast.ListComp, ast.SetComp, ast.GeneratorExp, ast.DictComp)): out.append(n)
            for ch in ast.iter_child_nodes(n): go(ch)
        go(node)
        return out

    def expr_effects(c, node):
        if node is None: return
        comps = c.comps_in(node)
        in_comp = set()
        for cp in comps:
            sub = c.comp_ctx(cp)
            for call in sub.calls_in(cp):
                in_comp.add(id(call)); sub.check_call(call)
        for call in c.calls_in(node):
            if id(call) not in in_comp: c.check_call(call)
        # lambdas used inline: their bodies run with free variables from this scope
        for n in ast.walk(node):
            if isinstance(n, ast.Lambda) and id(n) not in c.eff.node2qual:
                sub = _Ctx(c.eff, c.f, dict(c.env), c.ann, c.depth + 1, c.via + ('<lambda>',))
                for a in n.args.args: sub.env[a.arg] = set()
                sub.local_fns = c.local_fns; sub.shells = dict(c.shells); sub.local_callables = c.local_callables
                sub.mut, sub.glob, sub.selfw = c.mut, c.glob, c.selfw
                for call in sub.calls_in(n.body): sub.check_call(call)

    # ---- statements
    def bind_name(c, name, value_expr):
        c.env[name] = c.origin(value_expr)
        c.shells[name] = c.shell(value_expr)
        qs = c.eff.resolve_callable(c.f.mod, value_expr, {}) if isinstance(value_expr, (ast.Name, ast.Attribute, ast.Subscript, ast.Lambda, ast.Call)) else set()
        if qs and not isinstance(value_expr, ast.Call) or (isinstance(value_expr, ast.Call) and ast.unparse(value_expr.func).split('.')[-1] == 'partial'):
            if qs: c.local_callables[name] = qs
        elif name in c.local_callables: del c.local_callables[name]

    def assign_target(c, t, value_expr, stmt):
        if isinstance(t, ast.Name):
            if t.id in c.globals_decl:
                c.glob.setdefault((c.f.mod.short, t.id), c.site(stmt, 'global rebinding'))
            c.bind_name(t.id, value_expr)
        elif isinstance(t, (ast.Tuple, ast.List)):
            o = c.elements(value_expr) if not isinstance(value_expr, (ast.Tuple, ast.List)) else None
            for i, el in enumerate(t.elts):
                if isinstance(value_expr, (ast.Tuple, ast.List)) and len(value_expr.elts) == len(t.elts):
                    c.assign_target(el, value_expr.elts[i], stmt)
                elif isinstance(el, ast.Name):
                    c.env[el.id] = set(o or set()); c.shells[el.id] = set()
                elif isinstance(el, ast.Starred) and isinstance(el.value, ast.Name):
                    c.env[el.value.id] = set(); c.shells[el.value.id] = set(o or set())
        elif isinstance(t, (ast.Subscript, ast.Attribute)):
            if isinstance(t, ast.Attribute) and isinstance(t.value, ast.Name) and t.value.id == c.self_name and value_expr is not None:
                # self.x = <expr>: remember whether the field now holds an object created here
                if not c.origin(value_expr): c.fresh_fields.add(t.attr)
                else: c.fresh_fields.discard(t.attr)
            c.mutate(t.value, stmt, 'store')

    def walk(c, stmts):
        for st in stmts:
            if isinstance(st, ast.FunctionDef):
                c.local_fns[st.name] = st; continue
            if isinstance(st, ast.ClassDef): continue
            if isinstance(st, ast.Global):
                c.globals_decl |= set(st.names); continue
            if isinstance(st, ast.Assign):
                c.expr_effects(st.value)
                for t in st.targets: c.assign_target(t, st.value, st)
            elif isinstance(st, ast.AnnAssign):
                if st.value is not None:
                    c.expr_effects(st.value); c.assign_target(st.target, st.value, st)
            elif isinstance(st, ast.AugAssign):
                c.expr_effects(st.value)
                if isinstance(st.target, (ast.Subscript, ast.Attribute)):
                    c.mutate(st.target.value, st, 'augmented store')
                elif isinstance(st.target, ast.Name):
                    nm = st.target.id
                    if nm in c.globals_decl:
                        c.glob.setdefault((c.f.mod.short, nm), c.site(st, 'global rebinding'))
                    ann = c.ann.get(nm)
                    immutable = ann is not None and ann.split('[')[0].strip() in IMMUTABLE_ANN
                    containerish = isinstance(st.value, (ast.List, ast.ListComp, ast.Set, ast.SetComp, ast.Dict, ast.DictComp, ast.GeneratorExp, ast.Tuple))
                    if not immutable and (containerish or (ann is not None and ann.split('[')[0].strip().split('.')[-1] in ('list', 'dict', 'set', 'ndarray', 'List', 'Dict', 'Set'))):
                        c.mutate(st.target, st, 'in-place augmented assignment')
            elif isinstance(st, ast.Delete):
                for t in st.targets:
                    if isinstance(t, (ast.Subscript, ast.Attribute)): c.mutate(t.value, st, 'del')
            elif isinstance(st, ast.For):
                c.expr_effects(st.iter)
                o = c.elements(st.iter)
                for el in ast.walk(st.target):
                    if isinstance(el, ast.Name): c.env[el.id] = set(o); c.shells[el.id] = set()
                c.walk(st.body); c.walk(st.body); c.walk(st.orelse)
            elif isinstance(st, ast.While):
                c.expr_effects(st.test); c.walk(st.body); c.walk(st.body); c.walk(st.orelse)
            elif isinstance(st, ast.If):
                c.expr_effects(st.test)
                e0, s0 = {k: set(v) for k, v in c.env.items()}, {k: set(v) for k, v in c.shells.items()}
                c.walk(st.body)
                e1, s1 = c.env, c.shells
                c.env, c.shells = {k: set(v) for k, v in e0.items()}, {k: set(v) for k, v in s0.items()}
                c.walk(st.orelse)
                for k in set(e1) | set(c.env): c.env[k] = e1.get(k, set()) | c.env.get(k, set())
                for k in set(s1) | set(c.shells): c.shells[k] = s1.get(k, set()) | c.shells.get(k, set())
            elif isinstance(st, ast.Try):
                c.walk(st.body)
                for h in st.handlers: c.walk(h.body)
                c.walk(st.orelse); c.walk(st.finalbody)
            elif isinstance(st, ast.With):
                for it in st.items:
                    c.expr_effects(it.context_expr)
                    if it.optional_vars is not None: c.assign_target(it.optional_vars, it.context_expr, st)
                c.walk(st.body)
            elif isinstance(st, ast.Return):
                if st.value is not None:
                    c.expr_effects(st.value)
                    c.ret_origin |= c.origin(st.value)
                    c.ret_shell |= c.shell(st.value)
            elif isinstance(st, ast.Expr):
                c.expr_effects(st.value)
            elif isinstance(st, (ast.Raise, ast.Assert)):
                c.expr_effects(getattr(st, 'exc', None) or getattr(st, 'test', None))


def _direct_self_store(node, self_name) -> bool:
    """self.attr = value  (not self.attr[k] = v, not self.attr.field = v)"""
    targets = node.targets if isinstance(node, ast.Assign) else [node.target]
    return all(isinstance(t, ast.Attribute) and isinstance(t.value, ast.Name) and t.value.id == self_name for t in targets)


# ---------------------------------------------------------------------------------------------------- whole-program queries
def mutable_defaults(prog: Program, scope=None):
    """[(qual, param, site, text)] for parameters / dataclass fields whose default is a mutable object created once"""
    out = []
    for q, f in prog.funcs.items():
        if scope and not any(q.startswith(s) for s in scope): continue
        pos, defaults, _, _, kwonly, kwdefaults = params_of(f.node)
        pairs = list(zip(pos[len(pos) - len(defaults):], defaults)) + [(k, v) for k, v in zip(kwonly, kwdefaults) if v is not None]
        for p, d in pairs:
            if _is_mutable_literal(d):
                out.append((q, p, f"{f.mod.rel}:{getattr(d, 'lineno', 0)}", ast.unparse(d)[:40]))
    return out


def _is_mutable_literal(d) -> bool:
    if isinstance(d, (ast.List, ast.Dict, ast.Set, ast.ListComp, ast.DictComp, ast.SetComp)): return True
    if isinstance(d, ast.Call):
        nm = ast.unparse(d.func)
        if nm in ('list', 'dict', 'set', 'bytearray', 'np.array', 'np.zeros', 'np.ones', 'np.empty', 'numpy.array', 'defaultdict', 'collections.defaultdict', 'OrderedDict'): return True
    return False


def cache_decorators(prog: Program, scope=None):
    out = []
    for q, f in prog.funcs.items():
        if scope and not any(q.startswith(s) for s in scope): continue
        for d in prog.decorators(f.node):
            if d.split('(')[0] in CACHE_DECOS or d.split('(')[0].split('.')[-1] in ('lru_cache', 'cache', 'cached_property'):
                out.append((q, d, f.site))
    return out
