"""E1(nc) -- non-commutative normal forms for straight-line matrix code (products keep their order; transposes are pushed to the leaves).

term  = sum of (coefficient, product) ; product = tuple of atoms ; atom = (name, transposed: bool) | ('inv', normal-form, transposed)
rules: (XY)^T = Y^T X^T ; (X^-1)^T = (X^T)^-1 ; X^T = X for declared symmetric atoms ; inv / solve ; unary minus ; + / - ; .real dropped
"""
from __future__ import annotations
import ast
from fractions import Fraction as F


class NC:
    def __init__(s, terms=None):
        t = {}
        for prod, c in (terms or {}).items():
            if c != 0: t[prod] = t.get(prod, 0) + c
        s.t = {k: v for k, v in t.items() if v != 0}

    @staticmethod
    def atom(name): return NC({((name, False),): F(1)})

    @staticmethod
    def ident(): return NC({(): F(1)})

    def __add__(s, o):
        t = dict(s.t)
        for k, v in o.t.items(): t[k] = t.get(k, 0) + v
        return NC(t)

    def neg(s): return NC({k: -v for k, v in s.t.items()})

    def __matmul__(s, o):
        t = {}
        for k1, v1 in s.t.items():
            for k2, v2 in o.t.items():
                k = _simplify(k1 + k2)
                t[k] = t.get(k, 0) + v1 * v2
        return NC(t)

    def scale(s, c): return NC({k: v * c for k, v in s.t.items()})

    def T(s, sym):
        return NC({tuple(_tr(a, sym) for a in reversed(k)): v for k, v in s.t.items()})

    def inv(s, sym):
        if len(s.t) == 1:
            (k, v), = s.t.items()
            if len(k) == 1 and k[0][0] == 'inv':
                return NC(dict(k[0][1])).scale(F(1) / v)          # (X^-1)^-1 = X
        return NC({(('inv', s.key(), False),): F(1)})

    def key(s):
        return tuple(sorted(((k, v) for k, v in s.t.items()), key=repr))

    def __eq__(s, o): return isinstance(o, NC) and s.key() == o.key()
    def __hash__(s): return hash(s.key())

    def __repr__(s):
        if not s.t: return '0'
        out = []
        for k, v in sorted(s.t.items(), key=repr):
            c = '' if v == 1 else ('-' if v == -1 else f'{v}·')
            out.append(c + (' '.join(_show(a) for a in k) or 'I'))
        return ' + '.join(out)


def _show(a):
    if a[0] == 'inv':
        inner = ' + '.join(('' if v == 1 else f'{v}·') + ' '.join(_show(x) for x in k) for k, v in a[1])
        return f"({inner})⁻¹" + ('ᵀ' if a[2] else '')
    return a[0] + ('ᵀ' if a[1] else '')


def _tr(a, sym):
    if a[0] == 'inv':
        inner = NC(dict(a[1])).T(sym)
        return ('inv', inner.key(), False)
    if a[0] in sym: return (a[0], False)
    return (a[0], not a[1])


def _simplify(prod):
    """cancel X · X⁻¹ neighbours"""
    out = []
    for a in prod:
        if out:
            b = out[-1]
            if a[0] == 'inv' and len(a[1]) == 1 and a[1][0] == (((b),), F(1)): out.pop(); continue
            if b[0] == 'inv' and len(b[1]) == 1 and b[1][0] == (((a),), F(1)): out.pop(); continue
        out.append(a)
    return tuple(out)


class NCEval:
    """evaluate numpy-style matrix expressions to NC normal forms; unknown calls become atoms named by callee and argument names"""
    def __init__(s, symmetric=()):
        s.sym = set(symmetric)
        s.env = {}
        s.calls = {}        # atom name -> (callee text, [argument texts], {kw: text})

    def ev(s, e):
        if isinstance(e, ast.Name):
            return s.env.get(e.id, NC.atom(e.id))
        if isinstance(e, ast.Subscript) and isinstance(e.value, ast.Name) and isinstance(s.env.get(e.value.id), list) and isinstance(e.slice, ast.Constant):
            return s.env[e.value.id][e.slice.value]
        if isinstance(e, ast.UnaryOp) and isinstance(e.op, ast.USub): return s.ev(e.operand).neg()
        if isinstance(e, ast.UnaryOp) and isinstance(e.op, ast.UAdd): return s.ev(e.operand)
        if isinstance(e, ast.BinOp):
            a, b = s.ev(e.left), s.ev(e.right)
            if isinstance(e.op, ast.MatMult): return a @ b
            if isinstance(e.op, ast.Add): return a + b
            if isinstance(e.op, ast.Sub): return a + b.neg()
            if isinstance(e.op, ast.Mult):
                if isinstance(e.left, ast.Constant): return b.scale(F(str(e.left.value)))
                if isinstance(e.right, ast.Constant): return a.scale(F(str(e.right.value)))
            return NC.atom('?' + ast.unparse(e))
        if isinstance(e, ast.Attribute):
            if e.attr == 'T': return s.ev(e.value).T(s.sym)
            if e.attr in ('real',): return s.ev(e.value)
            return NC.atom(ast.unparse(e))
        if isinstance(e, ast.Call):
            fn = ast.unparse(e.func)
            short = fn.split('.')[-1]
            if short == 'inv' and len(e.args) == 1: return s.ev(e.args[0]).inv(s.sym)
            if short == 'solve' and len(e.args) == 2: return s.ev(e.args[0]).inv(s.sym) @ s.ev(e.args[1])
            if short in ('transpose',) and len(e.args) == 1: return s.ev(e.args[0]).T(s.sym)
            if short in ('array', 'asarray', 'real') and len(e.args) == 1: return s.ev(e.args[0])
            name = f"{short}({', '.join(ast.unparse(a) for a in e.args)}{''.join(', ' + k.arg + '=' + ast.unparse(k.value) for k in e.keywords if k.arg)})"
            s.calls[name] = (fn, [ast.unparse(a) for a in e.args], {k.arg: ast.unparse(k.value) for k in e.keywords if k.arg})
            return NC.atom(name)
        if isinstance(e, ast.Tuple):
            return [s.ev(x) for x in e.elts]
        if isinstance(e, ast.Constant) and isinstance(e.value, (int, float)):
            return NC.ident().scale(F(str(e.value)))
        return NC.atom('?' + ast.unparse(e)[:40])

    def run(s, stmts):
        """straight-line assignments; returns the value of the final `return`"""
        for st in stmts:
            if isinstance(st, ast.Assign) and len(st.targets) == 1:
                t = st.targets[0]
                if isinstance(t, ast.Name): s.env[t.id] = s.ev(st.value)   # may be a list for a tuple value
                elif isinstance(t, ast.Tuple) and all(isinstance(x, ast.Name) for x in t.elts):
                    v = s.ev(st.value)
                    base = v
                    for i, x in enumerate(t.elts):
                        nm = f"{_single_atom(base) or ast.unparse(st.value)}[{i}]"
                        s.env[x.id] = NC.atom(nm)
                        s.calls[nm] = s.calls.get(_single_atom(base) or '', (ast.unparse(st.value), [], {}))
            elif isinstance(st, ast.Return) and st.value is not None:
                if isinstance(st.value, ast.Tuple): return [s.ev(x) for x in st.value.elts]
                return s.ev(st.value)
        return None


def _single_atom(nc):
    if len(nc.t) == 1:
        (k, v), = nc.t.items()
        if v == 1 and len(k) == 1 and k[0][0] != 'inv' and not k[0][1]: return k[0][0]
    return None


def parse_expr(src):
    return ast.parse(src, mode='eval').body


# ---------------------------------------------------------------------------------------------------- E1 terms -> NC normal forms
class KeyNC:
    """convert E1 term keys (cc.terms.tkey) of matrix-valued expressions to NC normal forms.  Matrix products, inverses, solves,
    transposes, sums and scalar signs are interpreted; every other subterm is a base atom named M1, M2, ... by first appearance
    (`names` maps the name back to its key, so rules identify base matrices by CONTENT, not by the names of locals or helpers)."""
    def __init__(s, symmetric_pred=None):
        s.names = {}         # atom name -> key
        s._by_key = {}
        s.sym = set()
        s.realed = set()     # base atoms that were read through .real
        s.symmetric_pred = symmetric_pred or (lambda key: False)

    def base(s, key):
        r = repr(key)
        if r not in s._by_key:
            nm = f'M{len(s._by_key) + 1}'
            s._by_key[r] = nm; s.names[nm] = key
            if s.symmetric_pred(key): s.sym.add(nm)
        return NC.atom(s._by_key[r])

    def of(s, k):
        if isinstance(k, tuple) and k[:1] == ('poly',):
            tot = NC()
            for mono, (re, im) in k[1:]:
                if im != 0 or mono == (): return s.base(k)
                if len(mono) == 1 and mono[0][1] == 1: tot = tot + s.atom(mono[0][0]).scale(re)
                else: tot = tot + s.base(('mono', mono)).scale(re)
            return tot
        return s.atom(k)

    def any(s, k):
        """atomname slots hold either an atom or a full key"""
        return s.of(k) if isinstance(k, tuple) and k[:1] == ('poly',) else s.atom(k)

    def atom(s, at):
        if isinstance(at, tuple) and at:
            h = at[0]
            if h == 'matmul' and len(at) == 3: return s.of(at[1]) @ s.of(at[2])
            if h == 'T' and len(at) == 2: return s.any(at[1]).T(s.sym)
            if h in ('real',) and len(at) == 2:
                r = s.any(at[1]); nm = _single_atom(r)
                if nm is not None: s.realed.add(nm)
                return r
            if h == 'inv' and len(at) == 2: return s.any(at[1]).inv(s.sym)
            if h == 'call' and len(at) == 4 and isinstance(at[1], tuple) and at[1][0] == 'ext':
                fn = at[1][1].split('.')[-1]
                if fn == 'inv' and len(at[2]) == 1: return s.of(at[2][0]).inv(s.sym)
                if fn == 'solve' and len(at[2]) == 2: return s.of(at[2][0]).inv(s.sym) @ s.of(at[2][1])
                if fn in ('matmul', 'dot') and len(at[2]) == 2: return s.of(at[2][0]) @ s.of(at[2][1])
                if fn in ('transpose',) and len(at[2]) == 1: return s.of(at[2][0]).T(s.sym)
            if h == 'opq' and len(at) >= 3:
                fn = at[1]
                if fn in ('np.matmul', 'np.dot') and len(at) == 4: return s.any(at[2]) @ s.any(at[3])
                if fn in ('np.transpose',) and len(at) == 3: return s.any(at[2]).T(s.sym)
                if fn in ('np.real', 'np.asarray', 'np.array', 'np.copy', 'np.ascontiguousarray') and len(at) == 3: return s.any(at[2])
                if fn in ('np.negative',) and len(at) == 3: return s.any(at[2]).neg()
        return s.base(at)
