"""Entry point: python -m cc.main <ID> [--tier quick|thorough] [--repo /repo]"""
from __future__ import annotations
import argparse, importlib, os, sys
from .report import run_guarded

PROPS = [f'C{i:02d}' for i in range(1, 21)]


def main(argv=None) -> int:
    ap = argparse.ArgumentParser()
    ap.add_argument('pid')
    ap.add_argument('--tier', default=os.environ.get('VERIF_TIER') or 'quick', choices=['quick', 'thorough'])
    ap.add_argument('--repo', default=os.environ.get('VERIF_REPO', '/repo'))
    ap.add_argument('--no-write', action='store_true')
    a = ap.parse_args(argv)
    os.environ['VERIF_REPO'] = a.repo
    if a.pid == 'setup':
        # offline self-check of the framework: every rule module imports, the repository parses
        import glob
        from .api import program
        n = 0
        for f in sorted(glob.glob(os.path.join(os.path.dirname(__file__), 'rules', 'c[0-9][0-9].py'))):
            importlib.import_module('cc.rules.' + os.path.basename(f)[:-3]); n += 1
        prog = program(os.path.join(a.repo, 'src'))
        print(f'setup ok: {n} rule modules, {len(prog.modules)} repository modules, {len(prog.funcs)} functions parsed')
        return 0
    if a.pid == 'all':
        worst = 0
        for p in PROPS:
            worst = max(worst, _one(p, a))
        return worst
    return _one(a.pid, a)


def _one(pid, a) -> int:
    if pid not in PROPS:
        print(f'ANALYSIS-ERROR: unknown property {pid}'); return 2
    try:
        mod = importlib.import_module(f'cc.rules.{pid.lower()}')
    except ModuleNotFoundError:
        print(f'ANALYSIS-ERROR: property={pid} has no checker'); return 2
    except Exception as ex:        # a broken checker is an analysis error, never a verdict
        print(f'ANALYSIS-ERROR: property={pid} checker cannot be loaded: {type(ex).__name__}: {ex}'); return 2
    def body(rep):
        from .api import program
        prog = program(os.path.join(a.repo, 'src'))
        mod.run(rep, prog, a.tier)
        if a.tier == 'thorough':
            # both-ways self-test of the rules on in-memory variants of the CURRENT tree (never executed); failures are analysis errors
            from .selftest import run_selftest
            run_selftest(pid, os.path.join(a.repo, 'src'), rep)
    return run_guarded(pid, a.tier, body, a.repo, write=not a.no_write)


if __name__ == '__main__':
    sys.exit(main())
